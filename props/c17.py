"""C17 — flags ignore value/time offsets and depend only on the local neighbourhood."""
from __future__ import annotations

import z3

from symex import calendar_model as cal
from symex.harness import Job, Struct, VMAX
from symex.values import FALSE, TRUE, SFloat, SInt, STime, mk_and, mk_eq, mk_if, mk_not, mk_or, rv
from .common import flag_in, flag_is
from .rel import Pair, clone
from . import c03, c08, c09, c10, c11, c12, c13, c14


def fshift(xs, c):
    return [SFloat(x.nan, x.v + c.v) for x in xs]


def fneg(xs):
    return [SFloat(x.nan, -x.v) for x in xs]


def tshift(ts, d):
    return [STime(t.s + d.v, t.nat) for t in ts]


def in_bounds(xs, lo=-VMAX, hi=VMAX):
    return mk_and(*[mk_and(x.v >= lo, x.v <= hi) for x in xs])


def t_in_range(ts):
    return mk_and(*[mk_and(t.s >= cal.t_lo(), t.s < cal.t_hi()) for t in ts])


class Invariance(Pair):
    """flags(f(S)) == flags(f(T(S))) for a transformation T of the inputs (optionally reversed)."""
    prop = "C17"

    def __init__(self, base, label, transform, reverse=False):
        Pair.__init__(self, base)
        self.label, self.transform, self.reverse = label, transform, reverse
        self.name = f"invariance[{label}]: {base.name}"

    def declare(self, V):
        A = self.a.declare(V)
        if hasattr(self.a, "valid_params"):
            V.assume(self.a.valid_params(A))
        B = self.transform(V, A)
        return Struct(a=A, b=B)

    def holds(self, S, out):
        o2 = out.extra.get("other") if not out.raised else None
        if out.raised or o2 is None or o2.raised:
            return [("both runs return", FALSE)]
        n = len(out.flags)
        if len(o2.flags) != n:
            return [("both runs return the same number of flags", FALSE)]
        obl = []
        for i in range(n):
            j = n - 1 - i if self.reverse else i
            obl.append((f"[{i}] flag unchanged under '{self.label}'", mk_eq(out.flags[i], o2.flags[j])))
        return obl


class Locality(Pair):
    """changing observation p changes only flags inside the test's neighbourhood of p."""
    prop = "C17"

    def __init__(self, base, p, fields, neighbourhood, label):
        Pair.__init__(self, base)
        self.p, self.fields, self.nbh, self.label = p, fields, neighbourhood, label
        self.name = f"locality[p={p}; {label}]: {base.name}"

    def declare(self, V):
        A = self.a.declare(V)
        if hasattr(self.a, "valid_params"):
            V.assume(self.a.valid_params(A))
        changes = {}
        for f in self.fields:
            xs = list(getattr(A, f))
            old = xs[self.p]
            # same bounds as the original variable
            new = V.float(f"new_{f}", nan=True, lo=-180 if f == "lon" else (-90 if f == "lat" else -VMAX),
                          hi=180 if f == "lon" else (90 if f == "lat" else VMAX))
            xs[self.p] = new
            changes[f] = xs
        B = clone(A, **changes)
        if hasattr(self.a, "valid_params"):
            V.assume(self.a.valid_params(B))
        return Struct(a=A, b=B)

    def holds(self, S, out):
        o2 = out.extra.get("other") if not out.raised else None
        if out.raised or o2 is None or o2.raised:
            return [("both runs return", FALSE)]
        n = len(out.flags)
        if len(o2.flags) != n:
            return [("both runs return the same number of flags", FALSE)]
        obl = []
        for q in range(n):
            inside = self.nbh(self.a, S.a, self.p, q)
            if inside is True:
                continue
            cond = mk_eq(out.flags[q], o2.flags[q])
            if inside is not False:
                cond = mk_or(inside, cond)
            obl.append((f"[{q}] flag outside the neighbourhood of {self.p} is unchanged", cond))
        return obl


def nb_self(base, S, p, q):
    return q == p


def nb_three(base, S, p, q):
    return abs(q - p) <= 1


def nb_succ(base, S, p, q):
    return q in (p, p + 1)


def nb_flat(base, S, p, q):
    if q < p:
        return False
    ks, kf = base._k(S.st), base._k(S.ft)
    k = mk_if(ks >= kf, ks, kf)
    return k >= (q - p)


def nb_atten(base, S, p, q):
    if q < p:
        return False
    if q == p:
        return True
    return S.t[q].s - S.P.v < S.t[p].s


def jobs(tier):
    N = 3 if tier == "quick" else 5
    M = c08.MemberShape
    out = []

    def add_const(base, field):
        def T(V, A):
            c = V.float("c_off")
            xs = fshift(getattr(A, field), c)
            V.assume(in_bounds(xs))
            return clone(A, **{field: xs})
        out.append(Invariance(base, f"add a constant to {field}", T))

    def negate(base, field="x"):
        out.append(Invariance(base, f"negate {field}", lambda V, A: clone(A, **{field: fneg(getattr(A, field))})))

    def shift_time(base, extra=None):
        def T(V, A):
            d = V.int("d_shift", -(2 ** 27), 2 ** 27)
            ts = tshift(A.t, d)
            V.assume(t_in_range(ts))
            ch = {"t": ts}
            if extra:
                ch.update(extra(V, A, d))
            return clone(A, **ch)
        out.append(Invariance(base, "shift all timestamps", T))

    for n in range(1, N + 1):
        for method in ("average", "differential"):
            sp = c09.Spike(n, method, True, True)
            add_const(sp, "x")
            negate(sp)
            out.append(Invariance(sp, "reverse the series", lambda V, A: clone(A, x=A.x[::-1]), reverse=True))
        roc = c10.RateOfChange(n)
        add_const(roc, "x")
        negate(roc)
        shift_time(roc)
        if n >= 2:
            # sub-second stamps shifted by a sub-second constant
            def T_frac(V, A):
                from symex.values import SDelta
                d = V.int("d_shift", -(2 ** 20), 2 ** 20)
                df = V.float("df_shift", lo=0, hi=1)
                V.assume(df.v < 1)
                V.grid.append(df.v * 8 == z3.ToReal(z3.Int("df_shift!fk")))
                ts = [t + SDelta(d.v, FALSE, df.v) for t in A.t]
                V.assume(t_in_range(ts))
                return clone(A, t=ts)
            out.append(Invariance(c10.RateOfChange(n, frac=True), "shift sub-second timestamps by a sub-second constant", T_frac))
        add_const(c13.Density(n, True, True), "rho")
        if n <= 3:
            fl = c11.FlatLine(n, 60)
            add_const(fl, "x")
            negate(fl)
            shift_time(fl)
            shift_time(c10.Speed(n))
            for check in ("range", "std"):
                for period in (False, True):
                    if check == "std" and n > 2 and tier == "quick":
                        continue
                    at = c12.Attenuated(n, check, period)
                    add_const(at, "x")
                    negate(at)
                    shift_time(at)
        # data and spans shifted together
        def T_gr(V, A):
            c = V.float("c_off")
            x, f, s = fshift(A.x, c), fshift(A.f, c), fshift(A.s, c)
            V.assume(in_bounds(x + f + s))
            return clone(A, x=x, f=f, s=s)
        out.append(Invariance(c03.GrossRange(n, True), "shift data and spans together", T_gr))

        def T_vr(V, A):
            c = V.float("c_off")
            x, sp = fshift(A.x, c), fshift(A.span, c)
            V.assume(in_bounds(x + sp))
            return clone(A, x=x, span=sp)
        out.append(Invariance(c03.ValidRange(n, "float64", True, False), "shift data and span together", T_vr))

        def T_vrt(V, A):
            d = V.int("d_shift", -(2 ** 27), 2 ** 27)
            x, sp = tshift(A.x, d), tshift(A.span, d)
            V.assume(t_in_range(x + sp))
            return clone(A, x=x, span=sp)
        out.append(Invariance(c03.ValidRange(n, "datetime64", True, True), "shift time data and span together", T_vrt))
        if n <= 2:
            def T_cl(V, A):
                d = V.int("d_shift", -(2 ** 27), 2 ** 27)
                ts = tshift(A.t, d)
                m0 = clone(A.m[0], tspan=tshift(A.m[0].tspan, d))
                V.assume(t_in_range(ts + m0.tspan))
                return clone(A, t=ts, m=[m0])
            out.append(Invariance(c08.Climatology(n, [M(None, True, True)], prop="C17"), "shift times and absolute tspan together", T_cl))
    # locality
    for n in range(2, N + 1):
        for p in range(n):
            out.append(Locality(c03.GrossRange(n, True), p, ["x"], nb_self, "point itself"))
            out.append(Locality(c14.Location(n, "given", False), p, ["lon", "lat"], nb_self, "point itself (bounding box)"))
            out.append(Locality(c14.Location(n, "given", True), p, ["lon", "lat"], nb_succ, "point and successor (hop distance)"))
            out.append(Locality(c09.Spike(n, "average", True, True), p, ["x"], nb_three, "point and two neighbours"))
            out.append(Locality(c09.Spike(n, "differential", True, True), p, ["x"], nb_three, "point and two neighbours"))
            out.append(Locality(c13.Density(n, True, True), p, ["rho", "z"], nb_three, "point and two neighbours"))
            out.append(Locality(c10.RateOfChange(n), p, ["x"], nb_succ, "point and successor"))
            if n <= 3:
                out.append(Locality(c03.ValidRange(n, "float64", True, False), p, ["x"], nb_self, "point itself"))
                out.append(Locality(c10.Speed(n), p, ["lon", "lat"], nb_succ, "point and successor"))
                out.append(Locality(c11.FlatLine(n, 60), p, ["x"], nb_flat, "points whose trailing window contains it"))
                out.append(Locality(c12.Attenuated(n, "range", True), p, ["x"], nb_atten, "points whose trailing window contains it"))
                if n <= 2 or tier == "thorough":
                    out.append(Locality(c12.Attenuated(n, "std", True), p, ["x"], nb_atten, "points whose trailing window contains it"))
            if n <= 2:
                out.append(Locality(c08.Climatology(n, [M("month", True, True)], prop="C17"), p, ["x", "z"], nb_self, "point itself"))
    return out


FUNCTIONS = ["ioos_qc/qartod.py:spike_test", "ioos_qc/qartod.py:rate_of_change_test", "ioos_qc/qartod.py:flat_line_test",
             "ioos_qc/qartod.py:attenuated_signal_test", "ioos_qc/qartod.py:density_inversion_test", "ioos_qc/qartod.py:gross_range_test",
             "ioos_qc/qartod.py:climatology_test", "ioos_qc/qartod.py:location_test", "ioos_qc/argo.py:speed_test",
             "ioos_qc/axds.py:valid_range_test"]
OUTSIDE = ["series longer than the bound", "values off grid G / offsets that leave |x|<=2^20 (the property restricts itself to exactly "
           "representable dyadic values)", "time shifts beyond +-2^27 s or leaving 2018-2024",
           "locality of climatology: the time of the observation is not perturbed (value and depth are)"]
ASSUMPTIONS = ["numpy/pandas environment model validated per path against the real stack (both runs replayed)",
               "Lemma E: on grid G the transformations x+c, -x and differences are exact in binary64"]


def bounds(tier):
    return {"series_length": "1..3" if tier == "quick" else "1..5", "offsets": "symbolic real / whole-second shifts",
            "perturbation": "every position p, replacement value fully symbolic (incl. missing)"}


LEVEL_TEXT = ("bounded symbolic model checking of 2-safety properties: the real test function is executed on symbolic inputs and on "
              "their transformed / single-point-perturbed copy, and z3 proves flag equality (or equality outside the symbolic "
              "neighbourhood of the perturbed position)")
LEVEL_NOTE = "bounds: n<=3/5, grid G; environment model validated by per-path witnesses"
TECHNIQUE = "relational symbolic execution (self-composition) of the real Python source over a modelled numpy/pandas + z3"
