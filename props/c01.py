"""C01 — every QC test is a total, pure map from a series to one valid flag per point."""
from __future__ import annotations

import z3

from symex import symnp as snp
from symex.harness import Job, Outcome, Struct, observe
from symex.values import FALSE, TRUE, Sym, mk_and, mk_eq, mk_not, mk_or
from .common import FLAGSET, flag_in
from . import c03, c08, c09, c10, c11, c12, c13, c14


def _snapshot(obj):
    """structural snapshot of a parameter object / caller array (leaves are immutable scalars)"""
    import numpy as np
    if isinstance(obj, snp.ndarray):
        parts = list(obj.a.flat)
        if obj._is_masked and obj._mask is not None:
            parts += list(obj._mask.a.flat)
        return ("arr", parts)
    if isinstance(obj, np.ndarray):
        if isinstance(obj, np.ma.MaskedArray):
            return ("ma", [np.ma.getdata(obj).tobytes(), np.ma.getmaskarray(obj).tobytes()])
        return ("np", [obj.tobytes()])
    if isinstance(obj, (list, tuple)):
        return (type(obj).__name__, [_snapshot(x) for x in obj])
    if isinstance(obj, dict):
        return ("dict", [(k, _snapshot(v)) for k, v in obj.items()])
    if hasattr(obj, "_members"):
        return ("clim", [_snapshot(list(obj._members))])
    return ("leaf", [obj])


def _leaf_same(a, b):
    from symex.values import SBool, SFloat, SInt, STime, SDelta
    if a is b:
        return TRUE
    if isinstance(a, SFloat) and isinstance(b, SFloat):
        return mk_and(mk_eq(a.nan, b.nan), mk_or(a.nan, mk_eq(a.v, b.v)))
    if isinstance(a, SInt) and isinstance(b, SInt):
        return mk_eq(a.v, b.v)
    if isinstance(a, SBool) and isinstance(b, SBool):
        return mk_eq(a.b, b.b)
    if isinstance(a, (STime, SDelta)) and type(a) is type(b):
        return mk_and(mk_eq(a.nat, b.nat), mk_or(a.nat, mk_eq(a.s, b.s)))
    if isinstance(a, Sym) or isinstance(b, Sym):
        return FALSE
    if isinstance(a, float) and isinstance(b, float) and a != a and b != b:
        return TRUE
    try:
        return TRUE if a == b else FALSE
    except Exception:
        return FALSE


def _unchanged(b, a):
    """z3 Bool: snapshot `a` (after) equals snapshot `b` (before)"""
    if b[0] != a[0] or len(b[1]) != len(a[1]):
        return FALSE
    kind = b[0]
    if kind in ("arr", "leaf", "ma", "np"):
        return mk_and(*[_leaf_same(x, y) for x, y in zip(b[1], a[1])])
    if kind == "dict":
        return mk_and(*[mk_and(TRUE if k1 == k2 else FALSE, _unchanged(v1, v2)) for (k1, v1), (k2, v2) in zip(b[1], a[1])])
    return mk_and(*[_unchanged(x, y) for x, y in zip(b[1], a[1])])


class Recorder:
    """Wraps the module namespace handed to a base job: records arguments of the QC call and repeats it."""

    def __init__(self, mods, between, decoy=True):
        self._mods, self._between, self._decoy = mods, between, decoy
        self.calls = []

    def __getattr__(self, modname):
        mod = getattr(self._mods, modname)
        rec = self

        class _M:
            def __getattr__(self, fname):
                f = getattr(mod, fname)
                if not callable(f) or isinstance(f, type):
                    return f

                def wrapped(*a, **k):
                    before = _snapshot((a, k))
                    g0 = _globals_snapshot(mod)
                    r1 = f(*a, **k)
                    after = _snapshot((a, k))
                    if rec._between is not None:
                        rec._between(rec._mods)
                    # the same test with different parameters in between (state that leaks from one call to the next,
                    # e.g. a mutable default or a module-level cache, would show in the repeated call)
                    if rec._decoy:
                        try:
                            da, dk = _decoy(a), _decoy(k)
                            f(*da, **dk)
                        except Exception:
                            pass
                    r2 = f(*a, **k)
                    g1 = _globals_snapshot(mod)
                    rec.calls.append({"args_unchanged": _unchanged(before, after), "globals_unchanged": g0 == g1})
                    return (r1, r2, rec.calls[-1])
                return wrapped
        return _M()


def _decoy(obj, depth=0):
    """structurally identical arguments with every numeric *parameter* moved (arrays of data are kept)"""
    import numpy as np
    from symex.values import SFloat, SInt, STime, SDelta
    if isinstance(obj, (snp.ndarray, np.ndarray)):
        return obj
    if isinstance(obj, SFloat):
        return SFloat(obj.nan, obj.v + 977)
    if isinstance(obj, SInt):
        return SInt(obj.v + 3)
    if isinstance(obj, STime):
        return obj
    if isinstance(obj, bool) or obj is None or isinstance(obj, str):
        return obj
    if isinstance(obj, float):
        return obj + 977.0
    if isinstance(obj, int):
        return obj + 3
    if isinstance(obj, tuple):
        return tuple(_decoy(x, depth + 1) for x in obj)
    if isinstance(obj, list):
        return [_decoy(x, depth + 1) for x in obj]
    if isinstance(obj, dict):
        return {k: _decoy(v, depth + 1) for k, v in obj.items()}
    return obj


def _decoy_missing(obj):
    import numpy as np
    from symex.values import SFloat
    if isinstance(obj, snp.ndarray):
        if obj._dt.kind == "f":
            return snp.ndarray.from_list([SFloat.const(float("nan"))] * obj.a.size, "float64").reshape(obj.a.shape)
        return obj
    if isinstance(obj, np.ndarray):
        if obj.dtype.kind == "f":
            return np.full(obj.shape, np.nan)
        return obj
    if isinstance(obj, tuple):
        return tuple(_decoy_missing(x) for x in obj)
    if isinstance(obj, list):
        if obj and all(isinstance(x, (SFloat, float)) or x is None for x in obj):
            return obj
        return [_decoy_missing(x) for x in obj]
    if isinstance(obj, dict):
        return {k: _decoy_missing(v) for k, v in obj.items()}
    return obj


def _decoy_times(obj):
    """the same arguments with every time array flattened to its first stamp (a different time axis of the same length); used when
    a parameter *object* is passed, which could remember something about an earlier call's inputs"""
    import numpy as np
    if isinstance(obj, snp.ndarray):
        if obj._dt.kind == "M" and obj.a.size > 1:
            return snp.ndarray.from_list([obj.a.flat[0]] * obj.a.size, obj._dt).reshape(obj.a.shape)
        return obj
    if isinstance(obj, np.ndarray):
        if obj.dtype.kind == "M" and obj.size > 1:
            return np.full(obj.shape, obj.flat[0], dtype=obj.dtype)
        return obj
    if isinstance(obj, tuple):
        return tuple(_decoy_times(x) for x in obj)
    if isinstance(obj, dict):
        return {k: _decoy_times(v) for k, v in obj.items()}
    return obj


def _has_parameter_object(args, kwargs):
    import numpy as np
    from symex.values import Sym
    plain = (snp.ndarray, np.ndarray, np.generic, Sym, str, bytes, int, float, bool, list, tuple, dict, type(None))
    return any(not isinstance(x, plain) and hasattr(x, "__dict__") for x in list(args) + list(kwargs.values()))


def _globals_snapshot(mod):
    out = []
    for k, v in vars(mod).items():
        if k.startswith("__"):
            continue
        if isinstance(v, (list, dict, set)):
            out.append((k, id(v), len(v), repr(v)[:200]))
        else:
            out.append((k, id(v)))
    return tuple(out)


def _other_call(mods):
    """an unrelated QC call made between the two calls under test (history independence)"""
    import numpy as np
    mods.qartod.qartod_compare([_arr(mods, [1, 4, 9]), _arr(mods, [3, 1, 2])])


def _arr(mods, vals):
    q = mods.qartod
    return q.np.array(vals)


class Total(Job):
    prop = "C01"
    check_purity = True

    def __init__(self, base):
        self.base = base
        self.name = "total/pure: " + base.name
        self.max_paths = getattr(base, "max_paths", 4000)
        self.max_seconds = getattr(base, "max_seconds", 900)

    def params(self):
        return self.base.params()

    def declare(self, V):
        S = self.base.declare(V)
        if hasattr(self.base, "valid_params"):
            V.assume(self.base.valid_params(S))
        return S

    def invoke(self, mods, S, K):
        # the variance comparisons of the std check are non-linear: an extra symbolic call per path is not worth its cost there
        rec = Recorder(mods, _other_call, decoy=getattr(self.base, "check", None) != "std")
        return self.base.invoke(rec, S, K)

    def observe(self, result):
        r1, r2, info = result
        a, b = self.base.observe(r1) if hasattr(self.base, "observe") else observe(r1), None
        b = self.base.observe(r2) if hasattr(self.base, "observe") else observe(r2)
        a.extra["second"] = b
        a.extra["info"] = info
        return a

    def holds(self, S, out):
        if out.raised:
            return [(f"returns without raising (raised {type(out.exc).__name__}: {str(out.exc)[:80]})", FALSE)]
        n = self.base.n
        obl = [("exactly one flag per input element, input's shape", TRUE if tuple(out.shape) == (n,) else FALSE)]
        obl.append(("no flag hidden behind a mask", mk_not(mk_or(*out.mask)) if out.mask else TRUE))
        for i, f in enumerate(out.flags):
            obl.append((f"flag[{i}] is one of GOOD/UNKNOWN/SUSPECT/FAIL/MISSING", flag_in(f, FLAGSET)))
        info = out.extra["info"]
        obl.append(("caller's arrays and parameter objects are unmodified", info["args_unchanged"]))
        obl.append(("no hidden module state changed", TRUE if info["globals_unchanged"] else FALSE))
        b = out.extra["second"]
        same_shape = tuple(b.shape) == tuple(out.shape)
        obl.append(("calling again (another test in between) returns the same shape", TRUE if same_shape else FALSE))
        if same_shape:
            for i, (f, g) in enumerate(zip(out.flags, b.flags)):
                obl.append((f"calling again returns the same flag[{i}]", mk_eq(f, g)))
        return obl


def base_jobs(tier):
    N = 3 if tier == "quick" else 6
    M = c08.MemberShape
    out = []
    for n in range(0, N + 1):
        out.append(c03.GrossRange(n, True))
        out.append(c03.GrossRange(n, False, "list"))
        out.append(c09.Spike(n, "average", True, True))
        out.append(c09.Spike(n, "differential", True, True))
        out.append(c09.Spike(n, "average", False, False, carrier="list"))
        out.append(c10.RateOfChange(n))
        out.append(c13.Density(n, True, True))
        out.append(c13.Pressure(n))
        out.append(c14.Location(n, "given", True))
        out.append(c14.Location(n, "default", False))
        out.append(c03.ValidRange(n, "float64", True, False))
        out.append(c03.ValidRange(n, "datetime64", False, True))
        if n <= 4:
            out.append(c11.FlatLine(n, 60))
            out.append(c10.Speed(n))
            out.append(c12.Attenuated(n, "range", False))
            out.append(c12.Attenuated(n, "range", True, "obs"))
        if n <= 3:
            out.append(c12.Attenuated(n, "std", False))
            out.append(c12.Attenuated(n, "std", True))
            out.append(c08.Climatology(n, [M(None, True, True), M("month", True, False)]))
            out.append(c08.Climatology(n, [M("week", False, True)], as_object=True))
            out.append(c08.Climatology(n, []))
    return out


class MaskedTotal(Total):
    """same obligations with a numpy masked array as the caller's data carrier: free mask bits *and* free NaNs underneath"""

    def __init__(self, base, arrays):
        Total.__init__(self, base)
        self.arrays = arrays
        self.name = "total/pure[masked carrier]: " + base.name

    def declare(self, V):
        S = Total.declare(self, V)
        S._mask = {name: [V.bool(f"mk_{name}{i}") for i in range(len(getattr(S, name)))] for name in self.arrays}
        return S

    def invoke(self, mods, S, K):
        rec = Recorder(mods, _other_call)
        return self.base.invoke(rec, S, _MaskedKit(K, S, self.arrays))


class _MaskedKit:
    def __init__(self, K, S, arrays):
        self.K, self.S, self.arrays = K, S, arrays
        self.sym = K.sym

    def __getattr__(self, name):
        return getattr(self.K, name)

    def farray(self, vals, owner="caller"):
        for name in self.arrays:
            arr = getattr(self.S, name)
            if vals is arr and len(vals):
                return self.K.marray(list(vals), list(self.S._mask[name]))
        return self.K.farray(vals)


class PreHistory:
    """module facade: every QC call is preceded by calls of the same function on other inputs (all-missing data of the same
    shape; shifted parameters), so that state leaking from earlier calls shows up against the base job's own oracle"""

    def __init__(self, mods):
        self._mods = mods

    def __getattr__(self, modname):
        mod = getattr(self._mods, modname)

        class _M:
            def __getattr__(self, fname):
                f = getattr(mod, fname)
                if not callable(f) or isinstance(f, type):
                    return f

                def wrapped(*a, **k):
                    # (the call on another time axis comes first: whatever a parameter object remembers, it remembers from there)
                    decs = ((_decoy_times,) if _has_parameter_object(a, k) else ()) + (_decoy_missing, _decoy)
                    for dec in decs:
                        try:
                            f(*dec(a), **dec(k))
                        except Exception:
                            pass
                    return f(*a, **k)
                return wrapped
        return _M()


class Historied(Job):
    """the base job's own flag oracle must still hold after an arbitrary-looking call history"""
    prop = "C01"

    def __init__(self, base):
        self.base = base
        self.n = base.n
        self.name = "after other calls: " + base.name
        self.max_paths = 4 * getattr(base, "max_paths", 4000)
        self.max_seconds = getattr(base, "max_seconds", 900)

    def params(self):
        return self.base.params()

    def declare(self, V):
        S = self.base.declare(V)
        if hasattr(self.base, "valid_params"):
            V.assume(self.base.valid_params(S))
        return S

    def invoke(self, mods, S, K):
        return self.base.invoke(PreHistory(mods), S, K)

    def observe(self, result):
        return self.base.observe(result)

    def holds(self, S, out):
        return self.base.holds(S, out)


def jobs(tier):
    out = [Total(b) for b in base_jobs(tier)]
    MM = c08.MemberShape
    hist = [c03.GrossRange(2, True), c09.Spike(3, "average", True, True), c10.RateOfChange(2), c10.Speed(2), c13.Density(2, True, True),
            c13.Pressure(3), c14.Location(3, "given", True), c11.FlatLine(3, 60), c12.Attenuated(2, "range", True),
            c08.Climatology(1, [MM("month", True, True)], prop="C01"), c03.ValidRange(2, "float64", True, False),
            # a configuration *object* reused across calls on different time axes
            c08.Climatology(2, [MM("month", True, False)], as_object=True, prop="C01"),
            c08.Climatology(2, [MM("week", False, False), MM(None, True, False)], as_object=True, prop="C01")]
    out += [Historied(b) for b in hist]
    n = 2 if tier == "quick" else 3
    M = c08.MemberShape
    out += [MaskedTotal(c03.GrossRange(n, True), ["x"]), MaskedTotal(c03.ValidRange(n, "float64", True, False), ["x"]),
            MaskedTotal(c09.Spike(n + 1, "average", True, True), ["x"]), MaskedTotal(c10.RateOfChange(n), ["x"]),
            MaskedTotal(c13.Density(n, True, True), ["rho", "z"]), MaskedTotal(c14.Location(n, "given", True), ["lon", "lat"]),
            MaskedTotal(c11.FlatLine(3, 60), ["x"]), MaskedTotal(c10.Speed(n), ["lon", "lat"]),
            MaskedTotal(c12.Attenuated(n, "range", False), ["x"]),
            MaskedTotal(c08.Climatology(n, [M("month", True, True)], prop="C01"), ["x", "z"])]
    return out


FUNCTIONS = ["ioos_qc/qartod.py:location_test", "ioos_qc/qartod.py:gross_range_test", "ioos_qc/qartod.py:climatology_test",
             "ioos_qc/qartod.py:spike_test", "ioos_qc/qartod.py:rate_of_change_test", "ioos_qc/qartod.py:flat_line_test",
             "ioos_qc/qartod.py:attenuated_signal_test", "ioos_qc/qartod.py:density_inversion_test", "ioos_qc/argo.py:speed_test",
             "ioos_qc/argo.py:pressure_increasing_test", "ioos_qc/axds.py:valid_range_test", "ioos_qc/utils.py:mapdates",
             "ioos_qc/utils.py:isfixedlength", "ioos_qc/utils.py:isnan", "ioos_qc/utils.py:great_circle_distance"]
OUTSIDE = ["series longer than the bound", "multi-dimensional inputs (input's shape = (n,))", "dask carriers", "+-inf values",
           "masked-array / None carriers are exercised in C02 and C15", "BaseException-level failures"]
ASSUMPTIONS = ["numpy/pandas environment model validated per path against the real stack",
               "valid parameters: suspect span inside fail span, thresholds >= 0, strictly increasing whole-second times",
               "uninitialised memory (np.empty, masked_all, out-of-bounds strided reads) is a havoc symbol: the result must not depend on it"]


def bounds(tier):
    return {"series_length": "0..3" if tier == "quick" else "0..6 (0..3 for std / climatology)", "functions": 11,
            "history": "each call is repeated with a different QC call in between; module globals compared before/after"}


LEVEL_TEXT = ("bounded symbolic model checking of all eleven QC test functions: on every path of the real source z3 shows no "
              "exception is reachable for admissible inputs, the result has one unmasked valid flag per element, no store reaches a "
              "caller-owned buffer, the result does not depend on uninitialised memory and a repeated call yields the same terms")
LEVEL_NOTE = "bounds: n<=3/6, grid G; environment model validated per path; purity observed on the model's buffers (owner tags) and by snapshots"
TECHNIQUE = "symbolic execution of the real Python source over a modelled numpy/pandas + z3 (SMT)"
