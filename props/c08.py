"""C08 — climatology: last matching member wins, unmatched points are UNKNOWN."""
from __future__ import annotations

import z3

from symex import calendar_model as cal
from symex.harness import Job, Struct
from symex.values import FALSE, TRUE, mk_and, mk_eq, mk_if, mk_not, mk_or, rv
from .common import (FAIL, GOOD, MISSING, SUSPECT, UNKNOWN, cases, flag_in, flag_is, iv, shape_obligations)

PERIOD_RANGE = {"month": (0, 13), "dayofyear": (0, 367), "week": (0, 54), "weekofyear": (0, 54), "quarter": (0, 5),
                "dayofweek": (-1, 7), "year": (2017, 2025)}
CAL_NAME = {"weekofyear": "week"}


class MemberShape:
    def __init__(self, period=None, fspan=True, zspan=False, sorted_spans=True):
        self.period, self.fspan, self.zspan, self.sorted_spans = period, fspan, zspan, sorted_spans

    def label(self):
        return f"{self.period or 'abs'}{'+f' if self.fspan else ''}{'+z' if self.zspan else ''}{'' if self.sorted_spans else '~'}"


class Climatology(Job):
    prop = "C08"
    offgrid = "scale"      # comparison-only oracle: exact on every float, see harness.offgrid_probe
    max_paths = 3000

    def __init__(self, n, members, as_object=False, canary=None, prop="C08", frac=False):
        self.n, self.members, self.as_object, self.canary = n, members, as_object, canary
        self.frac = frac
        self.prop = prop
        self.name = (f"climatology n={n} members=[{','.join(m.label() for m in members)}] cfg={'object' if as_object else 'dicts'}"
                     + (f" CANARY={canary}" if canary else ""))
        if canary:
            self.expect_canary_sat = True
            self.validate_witnesses = False

    def params(self):
        return {"n": self.n, "members": [m.label() for m in self.members], "config_as": "ClimatologyConfig" if self.as_object else "list of dicts"}

    def _span(self, V, name, lo, hi, sorted_, kind="float"):
        if kind == "float":
            a, b = V.float(name + "a", lo=lo, hi=hi), V.float(name + "b", lo=lo, hi=hi)
            if sorted_:
                V.assume(a.v <= b.v)
        elif kind == "int":
            a, b = V.int(name + "a", lo, hi), V.int(name + "b", lo, hi)
            if sorted_:
                V.assume(a.v <= b.v)
        else:
            a, b = V.time(name + "a"), V.time(name + "b")
            if sorted_:
                V.assume(a.s <= b.s)
        return [a, b]

    def declare(self, V):
        S = Struct()
        S.x = V.floats("x", self.n, nan=True, lo=-4096, hi=4096)
        S.z = V.floats("z", self.n, nan=True, lo=-4096, hi=4096)
        S.t = [V.time(f"t{i}", frac=self.frac) for i in range(self.n)]
        S.m = []
        for k, ms in enumerate(self.members):
            M = Struct()
            if ms.period is None:
                M.tspan = self._span(V, f"m{k}t", None, None, ms.sorted_spans, "time")
            else:
                lo, hi = PERIOD_RANGE[ms.period]
                M.tspan = self._span(V, f"m{k}t", lo, hi, ms.sorted_spans, "int")
            M.vspan = self._span(V, f"m{k}v", -4096, 4096, ms.sorted_spans)
            M.fspan = self._span(V, f"m{k}f", -4096, 4096, ms.sorted_spans) if ms.fspan else None
            M.zspan = self._span(V, f"m{k}z", -4096, 4096, ms.sorted_spans) if ms.zspan else None
            S.m.append(M)
        return S

    def _config(self, mods, S, K):
        dicts = []
        for ms, M in zip(self.members, S.m):
            d = {"tspan": K.ttuple(M.tspan) if ms.period is None else tuple(M.tspan), "vspan": K.ftuple(M.vspan)}
            if M.fspan is not None:
                d["fspan"] = K.ftuple(M.fspan)
            if M.zspan is not None:
                d["zspan"] = K.ftuple(M.zspan)
            if ms.period is not None:
                d["period"] = ms.period
            dicts.append(d)
        if self.as_object:
            c = mods.qartod.ClimatologyConfig()
            for d in dicts:
                c.add(**d)
            return c
        return dicts

    def invoke(self, mods, S, K):
        return mods.qartod.climatology_test(self._config(mods, S, K), K.farray(S.x), K.tarray(S.t), K.farray(S.z))

    def expected(self, S, i):
        x, z, t = S.x[i], S.z[i], S.t[i]
        any_depth = mk_or(*[mk_not(zz.nan) for zz in S.z]) if S.z else FALSE
        exp = iv(UNKNOWN)
        for ms, M in zip(self.members, S.m):
            if ms.period is None and self.frac:
                a, b = M.tspan
                lo_t = (a <= b).b
                applies_t = mk_if(lo_t, mk_and((t >= a).b, (t <= b).b), mk_and((t >= b).b, (t <= a).b))
                tv = tlo = thi = None
            elif ms.period is None:
                tv = t.s
                tlo, thi = M.tspan[0].s, M.tspan[1].s
            else:
                tv = cal.attr(CAL_NAME.get(ms.period, ms.period), t.s)
                tlo, thi = M.tspan[0].v, M.tspan[1].v
            if tv is None:
                applies = applies_t
            else:
                lo = mk_if(tlo <= thi, tlo, thi)
                hi = mk_if(tlo <= thi, thi, tlo)
                applies = mk_and(tv >= lo, (tv < hi) if self.canary == "tspan_open" else (tv <= hi))
            if M.zspan is not None:
                zlo = mk_if(M.zspan[0].v <= M.zspan[1].v, M.zspan[0].v, M.zspan[1].v)
                zhi = mk_if(M.zspan[0].v <= M.zspan[1].v, M.zspan[1].v, M.zspan[0].v)
                applies = mk_and(applies, mk_not(z.nan), z.v >= zlo, z.v <= zhi)
            vlo = mk_if(M.vspan[0].v <= M.vspan[1].v, M.vspan[0].v, M.vspan[1].v)
            vhi = mk_if(M.vspan[0].v <= M.vspan[1].v, M.vspan[1].v, M.vspan[0].v)
            pairs = []
            if M.fspan is not None:
                flo = mk_if(M.fspan[0].v <= M.fspan[1].v, M.fspan[0].v, M.fspan[1].v)
                fhi = mk_if(M.fspan[0].v <= M.fspan[1].v, M.fspan[1].v, M.fspan[0].v)
                pairs.append((mk_or(x.v < flo, x.v > fhi), FAIL))
            pairs.append((mk_or(x.v < vlo, x.v > vhi), SUSPECT))
            exp = mk_if(applies, cases(*pairs, default=GOOD), exp)
        return exp

    def holds(self, S, out):
        if out.raised:
            return [("climatology_test does not raise for a valid call", FALSE)]
        obl = shape_obligations(out, self.n)
        for i in range(self.n):
            obl.append((f"flag[{i}] follows the last matching member (present value)",
                        mk_or(S.x[i].nan, mk_eq(out.flags[i], self.expected(S, i)))))
        return obl

    def known(self, S):
        return []


M = MemberShape


def jobs(tier):
    out = []
    periods = [None, "month", "dayofyear", "week", "weekofyear", "quarter", "dayofweek", "year"]
    nmax = 2 if tier == "quick" else 3
    # 0 members
    for n in (0, 1, 2):
        out.append(Climatology(n, []))
    # every period kind x (fspan, zspan) with one member
    for p in periods:
        for f, z in ((True, False), (False, True), (True, True), (False, False)):
            for n in ((1, 2) if tier == "quick" else (0, 1, 2, 3)):
                if tier == "quick" and n == 2 and not (f and z):
                    continue
                out.append(Climatology(n, [M(p, f, z)]))
    # spans given in either order (sorted() forks)
    for p in (None, "month"):
        out.append(Climatology(1, [M(p, True, True, sorted_spans=False)]))
    # two / three overlapping members: the last matching one wins
    combos2 = [(M(None, True, False), M("month", False, True)), (M("week", True, True), M(None, False, False)),
               (M("month", True, False), M("month", True, True)), (M("dayofyear", False, True), M("quarter", True, False))]
    for a, b in combos2:
        out.append(Climatology(nmax, [a, b]))
    out.append(Climatology(2, [M(None, True, False), M("month", False, True)], as_object=True))
    # three members whose period kinds interleave: configuration order must win over any grouping by period
    out.append(Climatology(1, [M("month", True, False), M(None, True, False), M("month", True, False)]))
    out.append(Climatology(1, [M(None, False, True), M("week", True, False), M(None, True, True)]))
    out.append(Climatology(1, [M("dayofyear", True, False), M("quarter", True, False), M("dayofyear", False, False)], as_object=True))
    if tier == "thorough":
        out.append(Climatology(2, [M(None, True, True), M("month", True, True), M("week", False, False)]))
        out.append(Climatology(2, [M("year", True, False), M("dayofweek", False, True), M(None, True, True)]))
    out.append(Climatology(2, [M(None, True, True)], frac=True))
    out.append(Climatology(1, [M("dayofyear", True, False), M(None, False, False)], frac=True))
    out.append(Climatology(1, [M("month", True, False)], canary="tspan_open"))
    return out


def lemmas(tier):
    import time
    t0 = time.time()
    try:
        k = cal.self_check()
        return [{"name": "calendar encoding agrees with the installed pandas on every day of 2018-01-01..2024-12-31 "
                         "(midnight and 23:59:59; year, month, day, dayofyear, dayofweek, quarter, ISO week)",
                 "ok": True, "checked": k, "solver_s": round(time.time() - t0, 2)}]
    except AssertionError as e:
        return [{"name": "calendar encoding", "ok": False, "error": str(e)}]


FUNCTIONS = ["ioos_qc/qartod.py:climatology_test", "ioos_qc/qartod.py:ClimatologyConfig", "ioos_qc/utils.py:mapdates",
             "ioos_qc/utils.py:isnan", "ioos_qc/utils.py:isfixedlength"]
OUTSIDE = ["more members / longer series than the bound", "times outside 2018-01-01..2024-12-31 or not whole seconds",
           "period names other than the eight enumerated", "values beyond +-4096 or off grid G"]
ASSUMPTIONS = ["numpy.ma + pandas (DatetimeIndex attributes, isocalendar, Series & MaskedArray logical ops) environment model "
               "validated per path against pandas 3.0.5 / numpy 1.26",
               "calendar attributes: piecewise tables generated from the installed pandas, validated for every day of the range"]


def bounds(tier):
    return {"series_length": "0..2" if tier == "quick" else "0..3", "members": "0..2" if tier == "quick" else "0..3",
            "periods": ["absolute", "month", "dayofyear", "week", "weekofyear", "quarter", "dayofweek", "year"],
            "times": "independent symbolic whole seconds in 2018..2024", "spans": "symbolic; sorted, plus unsorted (either order) jobs"}


LEVEL_TEXT = ("bounded symbolic model checking of the real climatology_test/ClimatologyConfig source: values, depths, times over "
              "seven years and every span end are symbolic; calendar periods are piecewise-linear integer terms; z3 proves each "
              "present value's flag equals that of the last matching member")
LEVEL_NOTE = "bounds: n<=2/3, members<=2/3, 2018-2024; pandas/numpy.ma are environment models validated by per-path witnesses"
TECHNIQUE = "symbolic execution of the real Python source over a modelled numpy/pandas + z3 (SMT, QF_LIRA with div/mod by constants)"
