"""C10 — rate of change and speed: change from the previous point per elapsed second."""
from __future__ import annotations

import z3

from symex.harness import Job, Struct
from symex.symgeo import GEOD
from symex.values import FALSE, TRUE, mk_and, mk_eq, mk_if, mk_not, mk_or, rv
from .common import (FAIL, GOOD, MISSING, SUSPECT, UNKNOWN, cases, flag_is, iv, shape_obligations, zabs)
from .c14 import LAT_MENU, LON_MENU


def time_arg(K, ts, carrier):
    if carrier == "datetime64":
        return K.tarray(ts)
    if carrier == "epoch":
        return K.epoch_array(ts)
    raise ValueError(carrier)


def elapsed_whole_seconds(a, b):
    """z3 Int: whole seconds elapsed from time a to time b (floor of the difference; handles sub-second stamps)"""
    return (b - a).s


class RateOfChange(Job):
    prop = "C10"

    def __init__(self, n, tcarrier="datetime64", canary=None, frac=False, ordered=True):
        self.n, self.tcarrier, self.canary, self.frac = n, tcarrier, canary, frac
        self.ordered = ordered      # False: distinct whole-second stamps in any order (used by C02 only; C10 speaks of increasing axes)
        self.name = (f"rate_of_change n={n} time={tcarrier}{' sub-second stamps' if frac else ''}{'' if ordered else ' unordered times'}"
                     + (f" CANARY={canary}" if canary else ""))
        if canary:
            self.expect_canary_sat = True
            self.validate_witnesses = False

    def params(self):
        return {"n": self.n, "time_carrier": self.tcarrier}

    def declare(self, V):
        S = Struct()
        S.x = V.floats("x", self.n, nan=True)
        if self.ordered:
            S.t = V.times_increasing("t", self.n, frac=self.frac)
        else:
            import itertools
            S.t = [V.time(f"t{i}") for i in range(self.n)]
            for a, b in itertools.combinations(S.t, 2):
                V.assume(mk_not(mk_eq(a.s, b.s)))
        S.thr = V.float("thr", lo=0)
        return S

    def invoke(self, mods, S, K):
        return mods.qartod.rate_of_change_test(K.farray(S.x), time_arg(K, S.t, self.tcarrier), threshold=S.thr)

    def holds(self, S, out):
        if out.raised:
            return [("rate_of_change_test does not raise for a valid call", FALSE)]
        n = self.n
        obl = shape_obligations(out, n)
        for i in range(n):
            x = S.x[i]
            if i == 0:
                exp = iv(GOOD)
            else:
                p = S.x[i - 1]
                dt = z3.ToReal(elapsed_whole_seconds(S.t[i - 1], S.t[i]))
                big = zabs(x.v - p.v) > S.thr.v * dt
                if self.canary == "ge":
                    big = zabs(x.v - p.v) >= S.thr.v * dt
                exp = mk_if(mk_and(mk_not(p.nan), big), iv(SUSPECT), iv(GOOD))
            obl.append((f"flag[{i}]: SUSPECT iff predecessor present and |dx|/dt > threshold (present value)",
                        mk_or(x.nan, mk_eq(out.flags[i], exp))))
            obl.append((f"flag[{i}]: missing value is MISSING", mk_or(mk_not(x.nan), flag_is(out.flags[i], MISSING))))
        return obl


class RateMismatch(Job):
    prop = "C10"

    def __init__(self, which):
        self.which = which
        self.name = f"{which} mismatched lengths"

    def params(self):
        return {"function": self.which}

    def declare(self, V):
        S = Struct()
        S.x = V.floats("x", 3, nan=True)
        S.y = V.floats("y", 3, nan=True)
        S.t = V.times_increasing("t", 2)
        S.thr = V.float("thr", lo=0)
        return S

    def invoke(self, mods, S, K):
        if self.which == "rate_of_change":
            return mods.qartod.rate_of_change_test(K.farray(S.x), K.tarray(S.t), threshold=S.thr)
        if self.which == "speed_time":
            return mods.argo.speed_test(K.farray(S.x), K.farray(S.y), K.tarray(S.t), S.thr, S.thr)
        return mods.argo.speed_test(K.farray(S.x), K.farray(S.y[:2]), K.tarray(S.t + S.t[:1]), S.thr, S.thr)

    def holds(self, S, out):
        return [("mismatched input lengths are rejected with ValueError",
                 TRUE if out.raised and isinstance(out.exc, ValueError) else FALSE)]


class Speed(Job):
    prop = "C10"

    def __init__(self, n, tcarrier="datetime64", canary=None, frac=False, min_step=1):
        self.n, self.tcarrier, self.canary, self.frac = n, tcarrier, canary, frac
        self.min_step = min_step     # 0: fixes less than a second apart (0 whole seconds elapsed) are admitted - used by C02 only
        self.name = (f"speed n={n} time={tcarrier}{' sub-second stamps' if frac else ''}{' incl. steps below 1 s' if min_step == 0 else ''}"
                     + (f" CANARY={canary}" if canary else ""))
        if canary:
            self.expect_canary_sat = True
            self.validate_witnesses = False

    def params(self):
        return {"n": self.n, "time_carrier": self.tcarrier}

    def declare(self, V):
        S = Struct()
        S.lon = [V.float(f"lon{i}", nan=True, lo=-180, hi=180, menu=LON_MENU) for i in range(self.n)]
        S.lat = [V.float(f"lat{i}", nan=True, lo=-90, hi=90, menu=LAT_MENU) for i in range(self.n)]
        S.t = V.times_increasing("t", self.n, frac=self.frac, min_step=self.min_step)
        if self.min_step == 0:
            for a, b in zip(S.t, S.t[1:]):
                V.assume((a < b).b)          # still strictly increasing
        S.st = V.float("st", lo=0)
        S.ft = V.float("ft", lo=0)
        return S

    def invoke(self, mods, S, K):
        return mods.argo.speed_test(K.farray(S.lon), K.farray(S.lat), time_arg(K, S.t, self.tcarrier),
                                    suspect_threshold=S.st, fail_threshold=S.ft)

    def holds(self, S, out):
        if out.raised:
            return [("speed_test does not raise for a valid call", FALSE)]
        n = self.n
        obl = shape_obligations(out, n)
        if n == 0:
            return obl
        full = [mk_and(mk_not(S.lon[i].nan), mk_not(S.lat[i].nan)) for i in range(n)]
        obl.append(("first point is UNKNOWN when it has a full position", mk_or(mk_not(full[0]), flag_is(out.flags[0], UNKNOWN))))
        for i in range(1, n):
            dt = z3.ToReal(elapsed_whole_seconds(S.t[i - 1], S.t[i]))
            d = GEOD(S.lat[i - 1].v, S.lon[i - 1].v, S.lat[i].v, S.lon[i].v)
            over_f = d > S.ft.v * dt
            if self.canary == "suspect_first":
                # deliberately wrong: SUSPECT takes precedence over FAIL (equality with a threshold cannot be used as a canary
                # here: the real geodesic never lands exactly on a grid threshold)
                exp = cases((d > S.st.v * dt, SUSPECT), (over_f, FAIL), default=GOOD)
            else:
                exp = cases((over_f, FAIL), (d > S.st.v * dt, SUSPECT), default=GOOD)
            obl.append((f"flag[{i}] follows geodesic distance / elapsed seconds (both positions complete)",
                        mk_or(mk_not(mk_and(full[i], full[i - 1])), mk_eq(out.flags[i], exp))))
        return obl


def jobs(tier):
    N = 5 if tier == "quick" else 14
    out = []
    for n in range(0, N + 1):
        out.append(RateOfChange(n))
    for n in (2, 3):
        out.append(RateOfChange(n, "epoch"))
    # sub-second timestamps: "whole seconds elapsed" is the floor of the difference, not the difference of floors
    for n in (2, 3) if tier == "quick" else (2, 3, 4):
        out.append(RateOfChange(n, frac=True))
    out.append(RateOfChange(3, "epoch", frac=True))
    out.append(Speed(2, frac=True))
    for n in range(0, (3 if tier == "quick" else 6) + 1):
        out.append(Speed(n))
    out.append(Speed(2, "epoch"))
    for w in ("rate_of_change", "speed_time", "speed_lat"):
        out.append(RateMismatch(w))
    out.append(RateOfChange(2, canary="ge"))
    out.append(Speed(2, canary="suspect_first"))
    return out


def lemmas(tier):
    from symex import lemmas as L
    return [L.lemma_Q()]


FUNCTIONS = ["ioos_qc/qartod.py:rate_of_change_test", "ioos_qc/argo.py:speed_test", "ioos_qc/utils.py:great_circle_distance",
             "ioos_qc/utils.py:mapdates"]
OUTSIDE = ["series longer than the bound", "non-increasing times, steps > 2^22 s or below one whole second; sub-second stamps are "
           "covered by dedicated jobs (fractions are arbitrary reals in the proof, multiples of 1/8 s in replays)", "values off grid G",
           "speed_test: positions with exactly one coordinate missing (property is silent)",
           "speed_test: comparison up to rounding distance of the threshold (geodesic is not on the grid; Lemma Q covers "
           "rate_of_change only)"]
ASSUMPTIONS = ["numpy.ma / pandas.to_datetime environment model validated per path against the real stack",
               "Lemma Q: on grid G, fl(|dx|/dt) > thr  <=>  |dx| > thr*dt for whole-second dt <= 2^22 (discharged per run)",
               "geographiclib modelled as an uninterpreted function (CEGAR replay)"]


def bounds(tier):
    return {"series_length": "0..5" if tier == "quick" else "0..14", "speed_track_length": "0..3" if tier == "quick" else "0..6",
            "time_steps": "symbolic whole seconds 1..2^22, times within 2018-2024", "time_carriers": ["datetime64[ns]", "epoch seconds (int)"],
            "threshold": "symbolic >= 0"}


LEVEL_TEXT = ("bounded symbolic model checking of the real rate_of_change_test / speed_test source with symbolic values, "
              "irregular symbolic time steps and thresholds; the division by elapsed seconds is decided exactly (Lemma Q), the "
              "geodesic is uninterpreted")
LEVEL_NOTE = "bounds: n<=5/14 (roc), n<=3/6 (speed); whole-second increasing times; grid G; environment model validated by witnesses"
TECHNIQUE = "symbolic execution of the real Python source over a modelled numpy/pandas + z3 (SMT, QF_UFNRA-lite: products threshold*dt)"
