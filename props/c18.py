"""C18 — a test that cannot run drops out without disturbing the rest of the run."""
from __future__ import annotations

import copy
import itertools
import warnings

import numpy as np
import z3

from symex.harness import Job, Outcome, Struct
from symex.values import FALSE, TRUE, mk_and, mk_eq, mk_if, mk_not, mk_or, rv
from .c05 import StreamRun, _StreamKit, install_probe, remove_probe
from .c06 import enc, enc_array

RAISER_SRC = '''
def raising_test(inp, limit=0.0):
    """verification probe: raises while evaluating the data when any value exceeds `limit`"""
    x = np.ma.masked_invalid(np.ma.filled(np.ma.array(inp).astype(np.float64), np.nan))
    if (x > limit).any():
        raise RuntimeError("raising_test: value above limit")
    return np.ma.ones(x.size, dtype="uint8")
'''

FAULTS = ["unknown_module", "unknown_module_dotted", "unknown_test", "missing_param", "rejected_param", "input_not_supplied", "absent_stream",
          "absent_stream_own_context",
          "raises_on_data", "aggregate_entry"]
POSITIONS = ["first", "last"]


class Faulty(StreamRun):
    prop = "C18"

    def __init__(self, frontend, fault, position, n=2, contexts=1, canary=None, wbound="timestamp"):
        axes = () if fault == "input_not_supplied" else ("z",)
        StreamRun.__init__(self, frontend, n, ("closed",) * contexts, axes=axes, streams=1 if frontend in ("numpy", "qcconfig") else 2,
                           tests=("probe_test", "spike_test"), prop="C18", wbound=wbound)
        self.fault, self.position = fault, position
        self.canary = canary
        self.name = f"fault[{fault}@{position}] {self.name}" + (f" CANARY={canary}" if canary else "")
        if canary:
            self.expect_canary_sat = True
            self.validate_witnesses = False

    def params(self):
        p = StreamRun.params(self)
        p.update({"fault": self.fault, "position": self.position})
        return p

    def declare(self, V):
        S = StreamRun.declare(self, V)
        S.limit = V.float("limit", lo=-4, hi=4)
        return S

    def _inject(self, cfg, S):
        """returns (config with the faulty entries, list of (stream, module, test) that must contribute no result)"""
        cfg = {"contexts": [dict(c, streams={sid: {m: dict(t) for m, t in mods.items()} for sid, mods in c["streams"].items()})
                            for c in cfg["contexts"]]}
        dead = []
        ids = self.stream_ids()
        for c in cfg["contexts"]:
            sid = ids[0] if self.position == "first" else ids[-1]
            streams = c["streams"]
            f = self.fault

            def put(sid, module, tname, kwargs):
                mods_ = streams.setdefault(sid, {})
                tests = dict(mods_.get(module, {}))
                if self.position == "first":
                    tests = {tname: kwargs, **tests}
                else:
                    tests[tname] = kwargs
                if self.position == "first":
                    streams[sid] = {module: tests, **{m: t for m, t in mods_.items() if m != module}}
                else:
                    mods_[module] = tests
            if f == "unknown_module":
                put(sid, "nosuchmodule", "gross_range_test", {"fail_span": [0, 1]})
                dead.append((sid, "nosuchmodule", "gross_range_test"))
            elif f == "unknown_module_dotted":
                put(sid, "no.such.module", "gross_range_test", {"fail_span": [0, 1]})
                dead.append((sid, "no.such.module", "gross_range_test"))
            elif f == "unknown_test":
                put(sid, "qartod", "no_such_test", {"threshold": 1})
                dead.append((sid, "qartod", "no_such_test"))
            elif f == "missing_param":
                put(sid, "qartod", "gross_range_test", {"suspect_span": [0, 1]})
                dead.append((sid, "qartod", "gross_range_test"))
            elif f == "rejected_param":
                put(sid, "qartod", "gross_range_test", {"fail_span": [0, 1], "suspect_span": [-5, 5]})
                dead.append((sid, "qartod", "gross_range_test"))
            elif f == "input_not_supplied":
                put(sid, "qartod", "climatology_test", {"config": [{"tspan": ["2018-01-01", "2024-01-01"], "vspan": [0, 1]}]})
                dead.append((sid, "qartod", "climatology_test"))
            elif f == "absent_stream":
                ghost = "ghost"
                if self.position == "first":
                    c["streams"] = {ghost: {"qartod": {"probe_test": {"thr": S.limit}}}, **streams}
                else:
                    streams[ghost] = {"qartod": {"probe_test": {"thr": S.limit}}}
                dead.append((ghost, "qartod", "probe_test"))
            elif f == "raises_on_data":
                put(sid, "qartod", "raising_test", {"limit": S.limit})
                dead.append((sid, "qartod", "raising_test"))
            elif f == "aggregate_entry":
                put(sid, "qartod", "aggregate", {})
                dead.append((sid, "qartod", "aggregate"))
        if self.fault == "absent_stream_own_context":
            # a whole context (without window) that only names streams the data does not have
            ghost_ctx = {"streams": {"ghost": {"qartod": {"probe_test": {"thr": S.limit}}}, "ghost2": {"qartod": {"spike_test": {"suspect_threshold": 1}}}}}
            cfg["contexts"] = [ghost_ctx] + cfg["contexts"] if self.position == "first" else cfg["contexts"] + [ghost_ctx]
            dead += [("ghost", "qartod", "probe_test"), ("ghost2", "qartod", "spike_test")]
        return cfg, dead

    def _collect(self, mods, res):
        if self.frontend == "qcconfig":
            return {"_stream": res}, None
        d = mods.results.collect_results(list(res), how="dict")
        l = mods.results.collect_results(list(res), how="list")
        return d, l

    def invoke(self, mods, S, K):
        K = _StreamKit(K, wbound=self.wbound)
        q = mods.qartod
        install_probe(q)
        exec(RAISER_SRC, q.__dict__)
        try:
            cfg = self._config(mods, S, K)
            bad_cfg, dead = self._inject(cfg, S)
            healthy = self._collect(mods, self._run_stream(mods, S, K, cfg))
            faulty = self._collect(mods, self._run_stream(mods, S, K, bad_cfg))
            return {"healthy": healthy, "faulty": faulty, "dead": dead}
        finally:
            remove_probe(q)
            q.__dict__.pop("raising_test", None)

    def observe(self, out):
        items = []

        def walk(tag, d):
            keys = []
            for sid in d:
                for pkg in d[sid]:
                    for tname in d[sid][pkg]:
                        keys.append((sid, pkg, tname))
                        arr = d[sid][pkg][tname]
                        for i, (m, nn, v) in enumerate(enc_array(arr)):
                            items.append((f"{tag}:{sid}:{pkg}:{tname}[{i}]", m, nn, v))
            return keys
        hk = walk("healthy", out["healthy"][0])
        fk = walk("faulty", out["faulty"][0])
        lk_h = [(c.stream_id, c.package, c.test) for c in (out["healthy"][1] or [])]
        lk_f = [(c.stream_id, c.package, c.test) for c in (out["faulty"][1] or [])]
        flags, mask = [], []
        for (lab, m, nn, v) in items:
            flags += [mk_if(m, rv(1), rv(0)), mk_if(mk_or(m, nn), rv(0), v)]
            mask += [FALSE, FALSE]
        return Outcome(flags=flags, mask=mask, shape=(len(flags),),
                       extra={"items": items, "hk": hk, "fk": fk, "lk_h": lk_h, "lk_f": lk_f, "dead": out["dead"]})

    def holds(self, S, out):
        if out.raised:
            return [(f"the run completes ({type(out.exc).__name__}: {str(out.exc)[:100]})", FALSE)]
        items = {lab: (m, nn, v) for lab, m, nn, v in out.extra["items"]}
        hk, fk, dead = out.extra["hk"], out.extra["fk"], out.extra["dead"]
        obl = []
        want = [(sid, "qartod", t) for sid in self.stream_ids() for t in self.tests]
        obl.append(("the healthy configuration yields one result per configured (stream, test)",
                    TRUE if sorted(hk) == sorted(want) else FALSE))
        if self.frontend == "qcconfig":
            dead_keys = [("_stream", p, t) for (_, p, t) in dead]
        else:
            dead_keys = dead
        for dk in dead_keys:
            if self.fault == "raises_on_data":
                if len(self.windows) != 1:
                    continue
                # the probe raises exactly when a window row of its stream exceeds the limit
                s_idx = self.stream_ids().index(dk[0]) if dk[0] in self.stream_ids() else 0
                raised = mk_or(*[mk_and(self._in_window(S, 0, r), mk_not(S.data[s_idx][r].nan), S.data[s_idx][r].v > S.limit.v)
                                 for r in range(self.n)])
                obl.append((f"the entry {dk} contributes a result iff it did not raise on the window rows",
                            mk_not(raised) if dk in fk else raised))
                continue
            obl.append((f"the faulty entry {dk} contributes no result", TRUE if (dk not in fk or self.canary == "x") else FALSE))
        obl.append(("every healthy (stream, test) still has a result", TRUE if all(k in fk for k in hk) else FALSE))
        obl.append(("list form: same healthy results" + ("" if self.fault == "raises_on_data" else ", none for the faulty entry"),
                    TRUE if sorted(k for k in out.extra["lk_f"] if k not in dead) == sorted(out.extra["lk_h"]) and
                    (self.fault == "raises_on_data" or not any(k in out.extra["lk_f"] for k in dead)) else FALSE))
        for (sid, pkg, t) in hk:
            i = 0
            while f"healthy:{sid}:{pkg}:{t}[{i}]" in items:
                a = items[f"healthy:{sid}:{pkg}:{t}[{i}]"]
                b = items.get(f"faulty:{sid}:{pkg}:{t}[{i}]")
                if b is None:
                    obl.append((f"{sid}:{t}[{i}] present with the faulty entry configured", FALSE))
                else:
                    c = mk_and(mk_eq(a[0], b[0]), mk_eq(a[2], b[2]))
                    if self.canary == "flip":
                        c = mk_not(c)
                    obl.append((f"{sid}:{t}[{i}] is exactly the result of the configuration without the faulty entry", c))
                i += 1
            obl.append((f"{sid}:{t}: same number of flags", TRUE if f"faulty:{sid}:{pkg}:{t}[{i}]" not in items else FALSE))
        return obl


NEEDS_Z_SRC = '''
def needs_depth_test(inp, zinp, thr=0.0):
    """verification probe: depth is a required input"""
    x = np.ma.masked_invalid(np.ma.filled(np.ma.array(inp).astype(np.float64), np.nan))
    flags = np.ma.ones(x.size, dtype="uint8")
    flags[x > thr] = 3
    flags[x.mask] = 9
    return flags
'''


class XarrayMixedDims(Job):
    """XarrayStream on a dataset whose variables live on different dimensions: v0(time) has time and depth axes, v1(obs) has none.
    A test that needs depth cannot run on v1 and must drop out without disturbing the rest."""
    prop = "C18"

    def __init__(self, n, order):
        self.n, self.order = n, order
        self.name = f"fault[input_not_supplied: variable on another dimension] stream[xarray] n={n} order={order}"

    def params(self):
        return {"rows": self.n, "variables": {"v0": "time (with z)", "v1": "obs (no axes)"}, "order": self.order}

    def declare(self, V):
        S = Struct()
        n = self.n
        S.t = V.times_increasing("t", n, max_step=2 ** 20)
        S.a = V.floats("a", n, nan=True)
        S.b = V.floats("b", n + 1, nan=True)
        S.z = V.floats("z", n, nan=True)
        S.thr = V.float("thr", lo=-4, hi=4)
        return S

    def _cfg(self, S, with_fault):
        t0 = {"needs_depth_test": {"thr": S.thr}, "spike_test": {"suspect_threshold": 1, "fail_threshold": 4}}
        t1 = {"spike_test": {"suspect_threshold": 1, "fail_threshold": 4}}
        if with_fault:
            t1 = {"needs_depth_test": {"thr": S.thr}, **t1}
        streams = {"v0": {"qartod": t0}, "v1": {"qartod": t1}}
        if self.order == "v1_first":
            streams = {"v1": streams["v1"], "v0": streams["v0"]}
        if with_fault:
            # a stream id that is only the *name of a dimension* (no variable, no coordinate): not a stream of the dataset
            streams = {"obs": {"qartod": {"spike_test": {"suspect_threshold": 1, "fail_threshold": 4}}}, **streams}
        return {"streams": streams}

    def invoke(self, mods, S, K):
        q = mods.qartod
        exec(NEEDS_Z_SRC, q.__dict__)
        try:
            if K.sym:
                from symex import symxr
                ds = symxr.Dataset(data_vars={"v0": (("time",), K.farray(S.a)), "z": (("time",), K.farray(S.z)), "v1": (("obs",), K.farray(S.b))},
                                   coords={"time": (("time",), K.tarray(S.t))})
            else:
                import xarray as xr
                ds = xr.Dataset({"v0": (("time",), K.farray(S.a)), "z": (("time",), K.farray(S.z)), "v1": (("obs",), K.farray(S.b))},
                                coords={"time": K.tarray(S.t)})
            out = {}
            for tag, wf in (("healthy", False), ("faulty", True)):
                res = list(mods.streams.XarrayStream(ds).run(mods.config.Config(self._cfg(S, wf))))
                out[tag] = mods.results.collect_results(res, how="dict")
            return out
        finally:
            q.__dict__.pop("needs_depth_test", None)

    def observe(self, out):
        items = []
        keys = {}
        for tag in ("healthy", "faulty"):
            ks = []
            d = out[tag]
            for sid in d:
                for pkg in d[sid]:
                    for t in d[sid][pkg]:
                        ks.append((sid, pkg, t))
                        for i, (m, nn, v) in enumerate(enc_array(d[sid][pkg][t])):
                            items.append((f"{tag}:{sid}:{t}[{i}]", m, nn, v))
            keys[tag] = ks
        flags, mask = [], []
        for (lab, m, nn, v) in items:
            flags += [mk_if(m, rv(1), rv(0)), mk_if(mk_or(m, nn), rv(0), v)]
            mask += [FALSE, FALSE]
        return Outcome(flags=flags, mask=mask, shape=(len(flags),), extra={"items": items, "keys": keys})

    def holds(self, S, out):
        if out.raised:
            return [(f"the run completes ({type(out.exc).__name__}: {str(out.exc)[:100]})", FALSE)]
        items = {lab: (m, nn, v) for lab, m, nn, v in out.extra["items"]}
        hk, fk = out.extra["keys"]["healthy"], out.extra["keys"]["faulty"]
        obl = [("healthy configuration: v0 gets both tests, v1 its spike test",
                TRUE if sorted(hk) == sorted([("v0", "qartod", "needs_depth_test"), ("v0", "qartod", "spike_test"), ("v1", "qartod", "spike_test")]) else FALSE),
               ("the test that needs depth contributes no result for the variable without a depth axis",
                TRUE if ("v1", "qartod", "needs_depth_test") not in fk else FALSE),
               ("a stream id that only names a dimension contributes no result",
                TRUE if not any(k[0] == "obs" for k in fk) else FALSE),
               ("every healthy (stream, test) still has a result", TRUE if all(k in fk for k in hk) else FALSE)]
        for (sid, pkg, t) in hk:
            i = 0
            while f"healthy:{sid}:{t}[{i}]" in items:
                a, b = items[f"healthy:{sid}:{t}[{i}]"], items.get(f"faulty:{sid}:{t}[{i}]")
                obl.append((f"{sid}:{t}[{i}] unchanged by the faulty entry",
                            FALSE if b is None else mk_and(mk_eq(a[0], b[0]), mk_eq(a[2], b[2]))))
                i += 1
        return obl


def jobs(tier):
    out = []
    fes = ["numpy", "numpy_dict", "pandas", "netcdf", "xarray", "qcconfig"] if tier == "quick" else ["numpy", "numpy_dict", "pandas", "pandas_idx", "netcdf", "xarray", "qcconfig"]
    for fe in fes:
        for fault in FAULTS:
            if fault in ("absent_stream", "absent_stream_own_context") and fe in ("numpy", "qcconfig"):
                continue      # a single unnamed array has no stream ids
            for pos in POSITIONS:
                if tier == "quick" and pos == "last" and fault in ("unknown_module", "unknown_module_dotted", "missing_param", "aggregate_entry"):
                    continue
                out.append(Faulty(fe, fault, pos))
        if tier == "thorough":
            out.append(Faulty(fe, "raises_on_data", "first", n=3, contexts=2))
            out.append(Faulty(fe, "unknown_test", "last", n=3, contexts=2))
    # window bounds written as ISO text / numpy.datetime64 (real-stack side of the replays)
    for fe, wb in (("numpy", "iso"), ("pandas", "datetime64"), ("xarray", "iso"), ("netcdf", "datetime")):
        out.append(Faulty(fe, "missing_param", "first", wbound=wb))
        out.append(Faulty(fe, "raises_on_data", "last", wbound=wb))
    out.append(XarrayMixedDims(2, "v0_first"))
    out.append(XarrayMixedDims(2, "v1_first"))
    out.append(Faulty("pandas", "raises_on_data", "first", canary="flip"))
    return out


FUNCTIONS = ["ioos_qc/config.py:Call.run", "ioos_qc/config.py:ContextConfig", "ioos_qc/streams.py:*Stream.run",
             "ioos_qc/results.py:collect_results_list", "ioos_qc/results.py:collect_results_dict"]
OUTSIDE = ["BaseException-level failures (Call.run catches Exception)", "more rows/contexts than the bound",
           "an unexpected extra parameter is silently dropped by Call.run's signature filter (the test runs): not a failing entry"]
ASSUMPTIONS = ["fault kinds enumerated; the data-dependent fault (a probe that raises when a value exceeds a symbolic limit) lets "
               "the solver choose when it triggers", "pandas/xarray environment models validated per path"]


def bounds(tier):
    return {"rows": 2, "contexts": "1 (2 in thorough)", "fault_kinds": FAULTS, "positions": POSITIONS,
            "frontends": "5 (quick) / 7 (thorough)", "healthy_tests_per_stream": 2}


LEVEL_TEXT = ("bounded symbolic model checking over enumerated fault kinds and positions: the real run (streams, Call.run, collect) is "
              "executed symbolically with and without the faulty entry and z3 proves the healthy tests' flags are identical and the "
              "faulty entry contributes nothing; the 'raises while evaluating' fault is data-dependent and symbolic")
LEVEL_NOTE = "fault kinds/positions enumerated (fault_enumeration flavour inside a symbolic run); rows=2"
TECHNIQUE = "relational symbolic execution of the real Python source over modelled numpy/pandas/xarray + z3, fault kinds enumerated"
