"""C07 — every equivalent spelling of a configuration yields the same set of calls."""
from __future__ import annotations

import io
import json
import os
import tempfile
from collections import OrderedDict

import numpy as np
import z3

from symex.harness import Job, Outcome, Struct
from symex.values import FALSE, TRUE, SFloat, SInt, STime, Sym, mk_and, mk_eq, mk_if, mk_not, mk_or, rv
from .c06 import enc

# parameter-value shapes (what dict_depth sees below the test name)
SHAPES = ["scalars", "lists", "none", "empty", "dict1", "dict2", "mixed"]
TESTS = [("qartod", "gross_range_test"), ("qartod", "spike_test"), ("argo", "pressure_increasing_test"), ("axds", "valid_range_test"),
         ("qartod", "location_test")]
REGION = {"type": "Feature", "geometry": {"type": "Polygon", "coordinates": [[[-80.0, 30.0], [-70.0, 30.0], [-70.0, 40.0], [-80.0, 40.0], [-80.0, 30.0]]]},
          "properties": {}}


def _forget_optional_modules():
    """every spelling is parsed as a fresh process would parse it: the check modules a configuration may name (argo, axds) are not
    imported yet - whether some earlier configuration happened to import them must not matter"""
    import sys
    for k in ("ioos_qc.argo", "ioos_qc.axds"):
        sys.modules.pop(k, None)


class Spellings(Job):
    prop = "C07"

    def __init__(self, shape, streams=1, tests=2, contexts=1, window=False, region=False, unknown=False, canary=None, modules=None):
        self.shape, self.streams, self.ntests, self.contexts, self.window, self.region, self.unknown = shape, streams, tests, contexts, window, region, unknown
        self.canary = canary
        # restrict the configured tests to some modules (e.g. only argo / axds: a configuration that never mentions qartod)
        self.pool = [mt for mt in TESTS if modules is None or mt[0] in modules]
        self.name = (f"spellings params={shape} streams={streams} tests={tests} contexts={contexts} window={window} region={region} "
                     f"unknown_names={unknown}{' modules=' + '+'.join(modules) if modules else ''}") + (f" CANARY={canary}" if canary else "")
        if canary:
            self.expect_canary_sat = True
            self.validate_witnesses = False

    def params(self):
        return {"param_shape": self.shape, "streams": self.streams, "tests": self.ntests, "contexts": self.contexts, "window": self.window,
                "region": self.region, "unknown_names": self.unknown}

    def declare(self, V):
        S = Struct()
        S.p = [[[V.float(f"p{c}_{s}_{q}", lo=-1024, hi=1024) for q in range(self.ntests)] for s in range(self.streams)]
               for c in range(self.contexts)]
        S.w = [(V.time(f"w{c}a"), V.time(f"w{c}b")) for c in range(self.contexts)] if self.window else None
        # "any": the parameter shape of every test is a symbolic choice the explorer enumerates (all combinations)
        S.sh = [V.int(f"shape{q}", 0, len(SHAPES) - 2) for q in range(self.ntests)] if self.shape == "any" else None
        return S

    # -- the logical configuration -----------------------------------------------------------------------------
    def _kwargs(self, x, q, S=None):
        sh = self.shape
        if sh == "any":
            sh = SHAPES[int(S.sh[q])]
        if sh == "mixed":
            sh = ["scalars", "lists", "dict1", "none", "empty"][q % 5]
        if sh == "scalars":
            return {"alpha": x, "beta": 3}
        if sh == "lists":
            return {"alpha": [x, 2], "beta": [1, [x, 0]]}
        if sh == "none":
            return None
        if sh == "empty":
            return {}
        if sh == "dict1":
            return {"alpha": {"inner": x}, "beta": 1}
        if sh == "dict2":
            return {"alpha": {"inner": {"deep": x}}}
        raise ValueError(sh)

    def logical(self, S, K):
        """list of contexts: (window, region, {stream: {module: {test: kwargs}}})"""
        out = []
        for c in range(self.contexts):
            streams = OrderedDict()
            for s in range(self.streams):
                sid = f"var{s}" if not (self.streams == 1 and self.contexts == 1 and not self.window and not self.region and False) else "_stream"
                mods = OrderedDict()
                for q in range(self.ntests):
                    m, t = self.pool[q % len(self.pool)]
                    mods.setdefault(m, OrderedDict())[t] = self._kwargs(S.p[c][s][q], q, S)
                if self.unknown:
                    mods.setdefault("qartod", OrderedDict())["not_a_test"] = {"foo": [1, None]}
                    mods["not_a_module"] = OrderedDict({"gross_range_test": {"fail_span": [0, 1]}})
                    mods["no.such.module"] = OrderedDict({"spike_test": {"suspect_threshold": 1}})
                    if self.unknown == "first":
                        mods = OrderedDict([("also_not_a_module", OrderedDict({"spike_test": {}}))] + list(mods.items()))
                streams[sid] = mods
            win = None
            if S.w is not None:
                win = {"starting": K.tlabel(S.w[c][0]), "ending": K.tlabel(S.w[c][1])}
            out.append((win, REGION if self.region else None, streams))
        return out

    def layouts(self, S, K):
        L = self.logical(S, K)

        def ctx(win, region, streams):
            d = OrderedDict()
            if win is not None:
                d["window"] = dict(win)
            if region is not None:
                d["region"] = region
            d["streams"] = streams
            return d
        lay = OrderedDict()
        lay["contexts"] = {"contexts": [ctx(*c) for c in L]}
        if len(L) == 1:
            lay["context"] = ctx(*L[0])
            if L[0][0] is None and L[0][1] is None:
                lay["streams"] = L[0][2]
                if len(L[0][2]) == 1:
                    lay["modules"] = list(L[0][2].values())[0]
        return lay

    def expected_calls(self, S, K, default_stream=None):
        exp = []
        for (win, region, streams) in self.logical(S, K):
            for sid, mods in streams.items():
                for m, tests in mods.items():
                    if m in ("not_a_module", "no.such.module", "also_not_a_module"):
                        continue
                    for t, kw in tests.items():
                        if t == "not_a_test":
                            continue
                        exp.append((default_stream or sid, m, t, kw or {}, win, region is not None))
        return exp

    # -- running ----------------------------------------------------------------------------------------------------
    @staticmethod
    def _calls(cfg):
        out = []
        for c in cfg.calls:
            w = c.context.window
            out.append((c.stream_id, c.module, c.method, dict(c.kwargs), (w.starting, w.ending), c.context.region is not None,
                        tuple(c.args)))
        return out

    def invoke(self, mods, S, K):
        K = _CfgKit(K)
        Config = mods.config.Config
        res = OrderedDict()
        for name, source in self.layouts(S, K).items():
            _forget_optional_modules()
            res[name] = self._calls(Config(source))
        carriers = None
        if not K.sym:
            carriers = self._carriers(mods, S, K)
        return {"layouts": res, "carriers": carriers}

    def _carriers(self, mods, S, K):
        """replay-only part: the same configuration through the real YAML / JSON / file / OrderedDict / xarray carriers"""
        import xarray as xr
        from pathlib import Path
        from ruamel.yaml import YAML
        Config = mods.config.Config
        out = OrderedDict()
        lay = self.layouts(S, _CfgKit(K, text=True))
        tmp = tempfile.mkdtemp(prefix="c07_")
        try:
            for lname, src in lay.items():
                plain = json.loads(json.dumps(src))
                js = json.dumps(plain)
                y = YAML(typ="safe")
                buf = io.StringIO()
                y.dump(plain, buf)
                ytext = buf.getvalue()
                variants = {"ordereddict": OrderedDict(plain), "json_text": js, "yaml_text": ytext, "json_stringio": io.StringIO(js),
                            "yaml_stringio": io.StringIO(ytext)}
                jp, yp = os.path.join(tmp, f"{lname}.json"), os.path.join(tmp, f"{lname}.yaml")
                open(jp, "w").write(js)
                open(yp, "w").write(ytext)
                variants.update({"json_path_str": jp, "json_path": Path(jp), "yaml_path_str": yp, "yaml_path": Path(yp)})
                ds = xr.Dataset({"v": ("time", np.arange(2.0))}, attrs={"ioos_qc_config": js})
                variants["xarray_global_attr"] = ds
                if lname == "streams":
                    # per-variable attributes: one flag variable per (target stream, module, test)
                    entries = []
                    for si, (sid, mods_) in enumerate(plain.items()):
                        ti = 0
                        for mname, tests in mods_.items():
                            for tname, kw in tests.items():
                                entries.append((si, ti, xr.DataArray(np.zeros(2), dims=("time",), attrs={
                                    "ioos_qc_module": mname, "ioos_qc_test": tname, "ioos_qc_target": sid,
                                    "ioos_qc_config": json.dumps(kw if kw is not None else {})})))
                                ti += 1
                    # the order of the flag variables in the Dataset is free: grouped by target, interleaved (a target's flag
                    # variables are not adjacent, as when a second batch of QC results is appended to a file), reversed
                    orders = {"": entries, "_interleaved": sorted(entries, key=lambda e: (e[1], e[0])),
                              "_reversed": list(reversed(entries))}
                    for oname, ents in orders.items():
                        variants["xarray_variable_attrs" + oname] = xr.Dataset({f"qc{k}": e[2] for k, e in enumerate(ents)})
                for vname, v in variants.items():
                    try:
                        out[f"{lname}:{vname}"] = self._calls(Config(v))
                    except Exception as e:
                        out[f"{lname}:{vname}"] = f"ERR {type(e).__name__}: {e}"
        finally:
            import shutil
            shutil.rmtree(tmp, ignore_errors=True)
        return out

    # -- observation ------------------------------------------------------------------------------------------------------
    def observe(self, out):
        # second flag: do all real carriers agree with the dict layouts?  (always 1 in the symbolic run, where the parsers are
        # stubs that hand back the same mapping; computed for real on every witness)
        agree = 1
        if out["carriers"] is not None:
            for key, calls in out["carriers"].items():
                ref = out["layouts"].get(key.split(":")[0])
                if isinstance(calls, str) or ref is None or len(calls) != len(ref):
                    agree = 0
                    continue
                kf = lambda c: (c[0], c[1], c[2], str([_norm(x) for x in c[4]]))
                for c, r in zip(sorted(calls, key=kf), sorted(ref, key=kf)):
                    same = (c[0], c[1], c[2], c[5], c[6]) == (r[0], r[1], r[2], r[5], r[6]) and _plain_equal(c[3], r[3]) and \
                        _plain_equal([_norm(x) for x in c[4]], [_norm(x) for x in r[4]])
                    if not same:
                        agree = 0
        return Outcome(flags=[z3.IntVal(1), z3.IntVal(agree)], mask=[FALSE, FALSE], shape=(2,), extra={"out": out})

    @staticmethod
    def _same_value(a, b):
        """z3 Bool: configured value a equals extracted value b (structure concrete, scalars possibly symbolic)"""
        if isinstance(a, dict) and isinstance(b, dict):
            if list(a.keys()) != list(b.keys()):
                return FALSE
            return mk_and(*[Spellings._same_value(a[k], b[k]) for k in a])
        if isinstance(a, (list, tuple)) and isinstance(b, (list, tuple)):
            if len(a) != len(b):
                return FALSE
            return mk_and(*[Spellings._same_value(x, y) for x, y in zip(a, b)])
        if isinstance(a, (dict, list, tuple)) or isinstance(b, (dict, list, tuple)):
            return FALSE
        if a is None or b is None:
            return TRUE if a is None and b is None else FALSE
        try:
            an, av = enc(_norm(a))
            bn, bv = enc(_norm(b))
        except TypeError:
            return TRUE if a == b else FALSE
        return mk_and(mk_eq(an, bn), mk_or(an, mk_eq(av, bv)))

    def _compare(self, label, calls, exp, obl):
        if isinstance(calls, str):
            obl.append((f"{label}: loads ({calls[:80]})", FALSE))
            return
        if self.canary == "drop_last":
            exp = exp[:-1]
        # the property speaks of the *set* of calls: serialisers (YAML) may reorder mapping keys
        calls = sorted(calls, key=lambda c: (str(c[4]), c[0], c[1], c[2]))
        exp = sorted(exp, key=lambda e: (str((None, None) if e[4] is None else (e[4]["starting"], e[4]["ending"])), e[0], e[1], e[2]))
        if len({(c[0], c[1], c[2]) for c in calls}) == len(calls) and len({(e[0], e[1], e[2]) for e in exp}) == len(exp):
            calls = sorted(calls, key=lambda c: (c[0], c[1], c[2]))
            exp = sorted(exp, key=lambda e: (e[0], e[1], e[2]))
        obl.append((f"{label}: exactly one call per configured (stream, module, test): {[(e[0], e[1], e[2]) for e in exp]} "
                    f"(got {[(c[0], c[1], c[2]) for c in calls]})",
                    TRUE if [(c[0], c[1], c[2]) for c in calls] == [(e[0], e[1], e[2]) for e in exp] else FALSE))
        if [(c[0], c[1], c[2]) for c in calls] != [(e[0], e[1], e[2]) for e in exp]:
            return
        for c, e in zip(calls, exp):
            obl.append((f"{label}: {e[0]}.{e[1]}.{e[2]} has exactly the configured parameters", self._same_value(e[3], c[3])))
            obl.append((f"{label}: {e[0]}.{e[1]}.{e[2]} carries no positional arguments", TRUE if c[6] in ((), ((),)) else FALSE))
            ew = (None, None) if e[4] is None else (e[4]["starting"], e[4]["ending"])
            obl.append((f"{label}: {e[0]}.{e[1]}.{e[2]} window", mk_and(self._same_value(ew[0], c[4][0]), self._same_value(ew[1], c[4][1]))))
            obl.append((f"{label}: {e[0]}.{e[1]}.{e[2]} region", TRUE if c[5] == e[5] else FALSE))

    def holds(self, S, out):
        if out.raised:
            return [(f"Config loads every spelling ({type(out.exc).__name__}: {str(out.exc)[:100]})", FALSE)]
        res = out.extra["out"]
        sym = any(isinstance(v, Sym) for v in _leaves(S))
        K = _CfgKit(_Dummy(sym))
        obl = []
        for lname, calls in res["layouts"].items():
            exp = self.expected_calls(S, K, default_stream="_stream" if lname == "modules" else None)
            self._compare(f"layout[{lname}]", calls, exp, obl)
        if res["carriers"] is not None:
            Kt = _CfgKit(_Dummy(sym), text=True)
            for key, calls in res["carriers"].items():
                lname = key.split(":")[0]
                exp = self.expected_calls(S, Kt, default_stream="_stream" if lname == "modules" else None)
                self._compare(f"carrier[{key}]", calls, exp, obl)
        return obl


def _plain_equal(a, b):
    if isinstance(a, dict) and isinstance(b, dict):
        return list(a.keys()) == list(b.keys()) and all(_plain_equal(a[k], b[k]) for k in a)
    if isinstance(a, (list, tuple)) and isinstance(b, (list, tuple)):
        return len(a) == len(b) and all(_plain_equal(x, y) for x, y in zip(a, b))
    if isinstance(a, float) and isinstance(b, float) and a != a and b != b:
        return True
    try:
        return bool(a == b)
    except Exception:
        return False


def _leaves(S):
    out = []
    for c in S.p:
        for s in c:
            out += list(s)
    return out


def _norm(x):
    """window bounds come back as str / datetime / Timestamp depending on the carrier"""
    import datetime as dt
    import pandas as pd
    if isinstance(x, (str, dt.datetime, pd.Timestamp)) and not isinstance(x, Sym):
        try:
            t = pd.Timestamp(x)
            if t.tzinfo is not None:
                t = t.tz_convert(None)
            return np.datetime64(t.to_datetime64(), "ns")
        except Exception:
            return x
    if isinstance(x, bool):
        return x
    return x


class _Dummy:
    def __init__(self, sym):
        self.sym = sym


class _CfgKit:
    def __init__(self, K, text=False):
        self.K, self.sym, self.text = K, K.sym, text

    def __getattr__(self, name):
        return getattr(self.K, name)

    def tlabel(self, t):
        """window bound as it is written in a configuration"""
        if self.sym:
            return t
        import pandas as pd
        if isinstance(t, STime):
            return t
        ts = pd.Timestamp(t)
        return ts.isoformat() if self.text else ts


def jobs(tier):
    out = []
    # first in the list, so that they run in freshly forked workers in which nothing has imported ioos_qc.argo / ioos_qc.axds yet
    out.append(Spellings("scalars", streams=1, tests=1, modules=("argo",)))
    out.append(Spellings("scalars", streams=1, tests=1, modules=("axds",)))
    out.append(Spellings("scalars", streams=1, tests=2, modules=("argo", "axds")))
    for sh in SHAPES:
        out.append(Spellings(sh, streams=1, tests=2))
        out.append(Spellings(sh, streams=2, tests=2))
    out.append(Spellings("any", streams=1, tests=2))
    out.append(Spellings("any", streams=2, tests=2))
    out.append(Spellings("any", streams=1, tests=1))
    out.append(Spellings("any", streams=1, tests=2, unknown=True))
    if tier == "thorough":
        out.append(Spellings("any", streams=1, tests=3))
        out.append(Spellings("any", streams=2, tests=2, contexts=2, window=True))
    out.append(Spellings("scalars", streams=1, tests=1))
    out.append(Spellings("none", streams=1, tests=1))
    out.append(Spellings("dict2", streams=1, tests=1))
    out.append(Spellings("mixed", streams=2, tests=5))
    out.append(Spellings("scalars", streams=2, tests=2, contexts=2, window=True))
    # two contexts that share their (absent) window and region but configure different things: both sets of calls are due
    out.append(Spellings("scalars", streams=2, tests=2, contexts=2))
    out.append(Spellings("lists", streams=1, tests=3, contexts=2, region=True))
    out.append(Spellings("lists", streams=1, tests=2, contexts=1, window=True, region=True))
    out.append(Spellings("scalars", streams=1, tests=2, contexts=1, region=True))
    out.append(Spellings("scalars", streams=2, tests=3, unknown=True))
    out.append(Spellings("lists", streams=1, tests=2, unknown=True))
    out.append(Spellings("scalars", streams=1, tests=2, unknown="first"))
    out.append(Spellings("any", streams=2, tests=2, unknown="first"))
    if tier == "thorough":
        for sh in SHAPES:
            out.append(Spellings(sh, streams=2, tests=3, contexts=2, window=True))
            out.append(Spellings(sh, streams=1, tests=4, unknown=True))
    out.append(Spellings("scalars", streams=1, tests=2, canary="drop_last"))
    return out


FUNCTIONS = ["ioos_qc/config.py:Config.__init__", "ioos_qc/config.py:ContextConfig.__init__", "ioos_qc/config.py:extract_calls",
             "ioos_qc/config.py:Call", "ioos_qc/config.py:Context", "ioos_qc/utils.py:dict_depth", "ioos_qc/utils.py:load_config_as_dict"]
OUTSIDE = ["carrier formats (YAML/JSON text, StringIO, file paths, xarray attributes) are third-party parsers and I/O: NOT solver-decided; "
           "each explored configuration's path witness is pushed through the real carriers (one concrete run per path)",
           "per-variable xarray attributes (ioos_qc_module/test/target/config)", "configuration trees beyond the enumerated parameter shapes",
           "GeoJSON regions are one concrete polygon (shapely is compiled code)", "a module or test whose value is not a mapping (e.g. `qartod: null`)"]
ASSUMPTIONS = ["parameter-value *shapes* (scalar / list / null / {} / nested dict depth 1-2) are a symbolic choice per test that the path "
               "explorer enumerates in all combinations ('any' jobs) or fixed per job; the scalar leaves and window bounds are symbolic and "
               "must come back unchanged"]


def bounds(tier):
    return {"contexts": "1..2", "streams": "1..2", "tests": "1..5 over qartod/argo/axds", "param_shapes": SHAPES,
            "layouts": ["contexts list", "single context with streams", "bare stream mapping", "bare module mapping"],
            "carriers_replayed": ["OrderedDict", "JSON text", "YAML text", "StringIO (JSON, YAML)", "str/Path to JSON and YAML files",
                                  "xarray global attribute"]}


LEVEL_TEXT = ("bounded symbolic model checking of the layout dispatch: the real Config/ContextConfig/extract_calls/dict_depth source is "
              "executed on the same logical configuration written in each of the four layouts, over enumerated parameter shapes with "
              "symbolic leaves, and the extracted calls must equal the configured (stream, module, test, kwargs, window, region); the "
              "eight carrier formats are replayed concretely per path witness (not solver-decided)")
LEVEL_NOTE = "layout dispatch: shapes enumerated, leaves symbolic; carrier parsing (ruamel, json, xarray, files) is replay-only"
TECHNIQUE = "symbolic execution of the real Python source + z3 for the layout/call extraction; concrete witness replay through real parsers"
