"""C19 — the pandas store writes one aligned, uniquely named column per test result."""
from __future__ import annotations

import itertools
import re

import numpy as np
import z3

from symex import symnp as snp
from symex.harness import Job, Outcome, Struct
from symex.symstr import SCat, SStr, compact, in_class, max_width, to_segs
from symex.values import FALSE, TRUE, mk_and, mk_eq, mk_if, mk_not, mk_or, rv
from .c04 import expected_column
from .c06 import enc, enc_array

SAFE = [(ord("a"), ord("z")), (ord("A"), ord("Z")), (ord("0"), ord("9")), (ord("_"), ord("_"))]
DIGIT = [(ord("0"), ord("9"))]
LEAD = [(ord("0"), ord("9")), (ord("_"), ord("_"))]


class CfSafeName(Job):
    """cf_safe_name on every bounded string: only letters, digits, underscores, never starting with a digit."""
    prop = "C19"

    def __init__(self, L, alphabet=None, canary=None):
        self.L, self.alphabet, self.canary = L, alphabet, canary
        self.name = f"cf_safe_name len<={L} alphabet={'any code point' if alphabet is None else 'representative'}" + (
            f" CANARY={canary}" if canary else "")
        if canary:
            self.expect_canary_sat = True
            self.validate_witnesses = False

    def params(self):
        return {"max_length": self.L, "alphabet": "any unicode scalar value" if self.alphabet is None else "a-zA-Z0-9_.- space e-acute"}

    def declare(self, V):
        S = Struct()
        S.s = V.string("s", self.L, self.alphabet)
        return S

    def invoke(self, mods, S, K):
        return mods.utils.cf_safe_name(S.s)

    def observe(self, result):
        segs = to_segs(result)
        w = max_width(segs) if not isinstance(result, str) else len(result)
        w = max(w, self.L + 2)
        length, at = compact(segs, w)
        return Outcome(flags=[length] + at, mask=[FALSE] * (w + 1), shape=(w + 1,), extra={"w": w})

    def holds(self, S, out):
        if out.raised:
            return [("cf_safe_name does not raise on a string", FALSE)]
        w = out.extra["w"]
        length, at = out.flags[0], out.flags[1:]
        s = S.s
        first_bad = mk_and(s.length >= 1, in_class(s.chars[0], LEAD))
        obl = []
        for p in range(w):
            obl.append((f"output char {p} is a letter, digit or underscore", mk_or(z3.IntVal(p) >= length, in_class(at[p], SAFE))))
        obl.append(("output never starts with a digit", mk_or(length < 1, mk_not(in_class(at[0], DIGIT)))))
        # functional form: 'v_' prefix iff the input starts with a digit or underscore, every other char mapped in place
        off = mk_if(first_bad, z3.IntVal(2), z3.IntVal(0))
        obl.append(("output length = input length (+2 when prefixed)", mk_eq(length, s.length + off)))
        for i in range(self.L):
            c = s.chars[i]
            mapped = mk_if(in_class(c, SAFE), c, z3.IntVal(ord("_")))
            if self.canary == "keep_dot":
                mapped = mk_if(mk_or(in_class(c, SAFE), mk_eq(c, z3.IntVal(ord(".")))), c, z3.IntVal(ord("_")))
            for p in range(w):
                obl.append((f"input char {i} lands at output position {p} mapped in place",
                            mk_or(z3.IntVal(i) >= s.length, mk_not(mk_eq(off + i, z3.IntVal(p))), mk_eq(at[p], mapped))))
        return obl


NAMES = ["temp", "sea water/temp (°C)", "9lives", "_x", "a b"]


class Store(Job):
    prop = "C19"
    max_paths = 4000

    def __init__(self, n, ids, tests, write_data, write_axes, include=None, exclude=None, aggregate=False, partial=False, canary=None):
        self.n, self.ids, self.tests, self.write_data, self.write_axes = n, tuple(ids), tuple(tests), write_data, write_axes
        self.include, self.exclude, self.aggregate, self.partial, self.canary = include, exclude, aggregate, partial, canary
        self.name = (f"store n={n} ids={list(ids)} tests={list(tests)} write_data={write_data} write_axes={write_axes} "
                     f"include={include} exclude={exclude} aggregate={aggregate} partial_window={partial}") + (
            f" CANARY={canary}" if canary else "")
        if canary:
            self.expect_canary_sat = True
            self.validate_witnesses = False

    def params(self):
        return {"rows": self.n, "stream_ids": list(self.ids), "tests": list(self.tests), "write_data": self.write_data,
                "write_axes": self.write_axes, "include": self.include, "exclude": self.exclude, "aggregate": self.aggregate,
                "partial_window": self.partial}

    def declare(self, V):
        S = Struct()
        n = self.n
        S.data = [V.floats(f"d{s}_", n, nan=True) for s in range(len(self.ids))]
        S.t = [V.time(f"t{r}") for r in range(n)]
        S.z = V.floats("z", n, nan=True)
        S.lat = V.floats("lat", n, nan=True, lo=-90, hi=90)
        S.lon = V.floats("lon", n, nan=True, lo=-180, hi=180)
        S.flag = [[[V.int(f"f{s}_{q}_{r}", 0, 9) for r in range(n)] for q in range(len(self.tests))] for s in range(len(self.ids))]
        S.cover = [V.bool(f"cov{r}") for r in range(n)] if self.partial else None
        return S

    def _filter(self, mods, spec):
        if spec is None:
            return None
        out = []
        for x in spec:
            if x.startswith("func:"):
                out.append(getattr(mods.qartod, x[5:]))
            else:
                out.append(x)
        return out

    def invoke(self, mods, S, K):
        R = mods.results
        n = self.n
        cover = [True] * n if S.cover is None else [bool(c) for c in S.cover]
        rows = [r for r in range(n) if cover[r]]
        sub = K.barray(cover)
        crs = []
        for s, sid in enumerate(self.ids):
            calls = [R.CallResult(package="qartod", test=t, function=getattr(mods.qartod, t),
                                  results=K.iarray([S.flag[s][q][r] for r in rows], "uint8")) for q, t in enumerate(self.tests)]
            crs.append(R.ContextResult(stream_id=sid, results=calls, subset_indexes=sub, data=K.farray([S.data[s][r] for r in rows]),
                                       tinp=K.tarray([S.t[r] for r in rows]), zinp=K.farray([S.z[r] for r in rows]),
                                       lat=K.farray([S.lat[r] for r in rows]), lon=K.farray([S.lon[r] for r in rows])))
        store = mods.stores.PandasStore(crs)
        if self.aggregate:
            store.compute_aggregate()
        df = store.save(write_data=self.write_data, write_axes=self.write_axes, include=self._filter(mods, self.include),
                        exclude=self._filter(mods, self.exclude))
        return {"df": df, "cover": cover}

    def observe(self, out):
        df = out["df"]
        cols = list(df.columns)
        items = []
        for c in cols:
            arr = df[c].values_arr() if hasattr(df[c], "values_arr") else df[c].to_numpy()
            for i, (m, nn, v) in enumerate(enc_array(arr)):
                items.append((f"{c}[{i}]", m, nn, v))
        flags, mask = [], []
        for (lab, m, nn, v) in items:
            flags += [mk_if(nn, rv(1), rv(0)), mk_if(nn, rv(0), v)]
            mask += [FALSE, FALSE]
        return Outcome(flags=flags, mask=mask, shape=(len(flags),), extra={"items": items, "cols": cols, "cover": out["cover"], "rows": len(df)})

    def known(self, S):
        from symex import findings
        names = [self.safe(f"{sid}.qartod.{t}") for sid in self.ids for t in self.tests]
        if len(set(names)) != len(names) and "KF-C19-cfsafe-collision" in findings.open_ids("C19"):
            return [("KF-C19-cfsafe-collision", TRUE)]
        return []

    @staticmethod
    def safe(name):
        if re.match("^[0-9_]", name):
            name = f"v_{name}"
        return re.sub(r"[^_a-zA-Z0-9]", "_", name)

    def holds(self, S, out):
        if out.raised:
            return [(f"save() completes ({type(out.exc).__name__}: {str(out.exc)[:100]})", FALSE)]
        items = {lab: (m, nn, v) for lab, m, nn, v in out.extra["items"]}
        cols, cover, n = out.extra["cols"], out.extra["cover"], self.n
        obl = [("exactly one row per input row", TRUE if out.extra["rows"] == n or (not cols and n == 0) else FALSE)]

        def passes(sid, tname):
            inc, exc = self.include, self.exclude
            fname = "func:aggregate" if tname == "rollup" else "func:" + tname      # the roll-up's function is qartod.aggregate
            ok = True
            if inc is not None:
                ok = ok and (sid in inc or tname in inc or fname in inc)
            if exc is not None:
                ok = ok and not (sid in exc or tname in exc or fname in exc)
            return ok
        want = []
        if self.write_axes and n > 0:
            want += ["time", "z", "lon", "lat"]
        expected_flag_cols = {}
        for s, sid in enumerate(self.ids):
            any_pass = False
            for q, t in enumerate(self.tests):
                if not passes(sid, t):
                    continue
                if self.write_data and sid not in want:
                    want.append(sid)
                cname = self.safe(f"{sid}.qartod.{t}")
                if cname in expected_flag_cols:
                    obl.append((f"results ({sid},{t}) and {expected_flag_cols[cname][:2]} need distinct columns", FALSE))
                    continue
                expected_flag_cols[cname] = (s, q, sid, t)
                want.append(cname)
        if self.aggregate and passes("", "rollup"):
            want.append("qartod_rollup")
        obl.append((f"columns are exactly {want} (got {cols})", TRUE if sorted(cols) == sorted(want) and len(set(cols)) == len(cols) else FALSE))
        for c in cols:
            obl.append((f"column name {c!r} is CF-safe" if c not in self.ids else f"data column {c!r}", TRUE if (
                c in self.ids or re.fullmatch(r"[A-Za-z_][A-Za-z0-9_]*", c)) else FALSE))

        def col_is(cname, vals, what, covered_only=True):
            for r in range(n):
                lab = f"{cname}[{r}]"
                if lab not in items:
                    obl.append((f"{lab} exists", FALSE))
                    continue
                m, nn, v = items[lab]
                if covered_only and not cover[r]:
                    obl.append((f"{lab}: empty where the row was not evaluated", nn))
                    continue
                xn, xv = enc(vals[r])
                obl.append((f"{lab}: {what}", mk_and(mk_eq(nn, xn), mk_or(xn, mk_eq(v, xv)))))
        if "time" in cols and self.write_axes:
            col_is("time", S.t, "time axis in input order")
            col_is("z", S.z, "depth axis")
            col_is("lat", S.lat, "latitude axis")
            col_is("lon", S.lon, "longitude axis")
        for cname, (s, q, sid, t) in expected_flag_cols.items():
            if cname in cols:
                col_is(cname, S.flag[s][q], f"flags of ({sid},{t})")
        if self.write_data:
            for s, sid in enumerate(self.ids):
                if sid in cols:
                    col_is(sid, S.data[s], f"data of {sid}")
        if "qartod_rollup" in cols:
            for r in range(n):
                m, nn, v = items[f"qartod_rollup[{r}]"]
                vals = [z3.ToReal(S.flag[s][q][r].v) for s in range(len(self.ids)) for q in range(len(self.tests))]
                masks = [FALSE if cover[r] else TRUE] * len(vals)
                exp = expected_column(vals, masks)
                if self.canary == "rollup_min":
                    exp = exp + 1
                obl.append((f"qartod_rollup[{r}] is the aggregate of all test columns", mk_and(mk_not(nn), mk_eq(v, z3.ToReal(exp)))))
        return obl


class Collision(Job):
    """distinct (stream, test) pairs whose CF-safe names coincide (decided on symbolic strings)"""
    prop = "C19"

    def __init__(self, L):
        self.L = L
        self.name = f"cf_safe_name injective on names of length<={L}"

    def params(self):
        return {"max_length": self.L}

    def declare(self, V):
        S = Struct()
        alpha = [(ord("a"), ord("b")), (ord("_"), ord("_")), (ord(" "), ord(" ")), (ord("."), ord("."))]
        S.a = V.string("a", self.L, alpha)
        S.b = V.string("b", self.L, alpha)
        return S

    def invoke(self, mods, S, K):
        return (mods.utils.cf_safe_name(S.a), mods.utils.cf_safe_name(S.b))

    def observe(self, result):
        sa, sb = to_segs(result[0]), to_segs(result[1])
        w = self.L + 2
        la, ca = compact(sa, w)
        lb, cb = compact(sb, w)
        return Outcome(flags=[la] + ca + [lb] + cb, mask=[FALSE] * (2 * w + 2), shape=(2 * w + 2,), extra={"w": w})

    def holds(self, S, out):
        if out.raised:
            return [("does not raise", FALSE)]
        w = out.extra["w"]
        la, ca = out.flags[0], out.flags[1:w + 1]
        lb, cb = out.flags[w + 1], out.flags[w + 2:]
        same_out = mk_and(mk_eq(la, lb), *[mk_or(z3.IntVal(p) >= la, mk_eq(ca[p], cb[p])) for p in range(w)])
        same_in = mk_and(mk_eq(S.a.length, S.b.length),
                         *[mk_or(z3.IntVal(i) >= S.a.length, mk_eq(S.a.chars[i], S.b.chars[i])) for i in range(self.L)])
        return [("distinct names get distinct CF-safe names", mk_or(same_in, mk_not(same_out)))]

    def known(self, S):
        from symex import findings
        if "KF-C19-cfsafe-collision" in findings.open_ids("C19"):
            # any pair of distinct names that differ only in characters cf_safe_name rewrites
            return [("KF-C19-cfsafe-collision", TRUE)]
        return []


def jobs(tier):
    out = []
    REP = [(ord("a"), ord("z")), (ord("A"), ord("Z")), (ord("0"), ord("9")), (ord("_"), ord("_")), (ord("."), ord(".")),
           (ord("-"), ord("-")), (ord(" "), ord(" ")), (0xE9, 0xE9)]
    out.append(CfSafeName(3 if tier == "quick" else 7))
    out.append(CfSafeName(4 if tier == "quick" else 8, REP))
    n = 2
    for wd in (False, True):
        for wa in (False, True):
            out.append(Store(n, ["temp", "sea water/temp (°C)"], ["spike_test", "gross_range_test"], wd, wa))
    out.append(Store(n, ["9lives", "_x"], ["spike_test"], True, True))
    out.append(Store(n, ["temp", "a b"], ["spike_test", "gross_range_test"], False, True, include=["temp"]))
    out.append(Store(n, ["temp", "a b"], ["spike_test", "gross_range_test"], True, False, include=["spike_test"]))
    out.append(Store(n, ["temp", "a b"], ["spike_test", "gross_range_test"], True, True, include=["func:gross_range_test", "a b"]))
    out.append(Store(n, ["temp", "a b"], ["spike_test", "gross_range_test"], False, True, exclude=["temp"]))
    out.append(Store(n, ["temp", "a b"], ["spike_test", "gross_range_test"], True, True, exclude=["spike_test"]))
    out.append(Store(n, ["temp", "a b"], ["spike_test", "gross_range_test"], False, False, exclude=["func:spike_test"]))
    out.append(Store(n, ["temp", "a b"], ["spike_test", "gross_range_test"], False, False, include=["temp"], exclude=["spike_test"]))
    out.append(Store(n, ["temp"], ["spike_test", "gross_range_test"], False, True, aggregate=True))
    out.append(Store(3, ["temp", "salt"], ["spike_test"], True, True, aggregate=True, partial=True))
    out.append(Store(0, ["temp"], ["spike_test"], True, True))
    # filters whose survivors are the roll-up only / nothing at all: the axes (and one row per input row) are still due
    out.append(Store(n, ["temp"], ["spike_test", "gross_range_test"], False, True, include=["rollup"], aggregate=True))
    out.append(Store(n, ["temp", "a b"], ["spike_test"], True, True, exclude=["temp", "a b"]))
    out.append(Store(n, ["temp"], ["spike_test", "gross_range_test"], False, True, include=["no_such_test"]))
    # the roll-up selected / dropped through its function (qartod.aggregate), its test name is "rollup"
    out.append(Store(n, ["temp"], ["spike_test", "gross_range_test"], False, False, include=["func:aggregate", "spike_test"], aggregate=True))
    out.append(Store(n, ["temp"], ["spike_test"], False, True, exclude=["func:aggregate"], aggregate=True))
    out.append(Store(3, ["temp"], ["spike_test", "gross_range_test"], True, True, partial=True))
    out.append(Collision(2 if tier == "quick" else 4))
    out.append(Store(2, ["a b", "a_b"], ["spike_test"], False, False))
    out.append(CfSafeName(3, canary="keep_dot"))
    out.append(Store(2, ["temp"], ["spike_test"], False, False, aggregate=True, canary="rollup_min"))
    return out


FUNCTIONS = ["ioos_qc/stores.py:PandasStore", "ioos_qc/stores.py:column_from_collected_result", "ioos_qc/utils.py:cf_safe_name",
             "ioos_qc/results.py:collect_results_list", "ioos_qc/qartod.py:aggregate"]
OUTSIDE = ["strings longer than the bound", "more rows/streams/tests than the bound", "stream ids in the store jobs are enumerated concrete "
           "samples (f-strings realise symbolic strings); cf_safe_name itself is decided on symbolic strings", "CFNetCDFStore"]
ASSUMPTIONS = ["pandas DataFrame environment model (column assignment, masked->NaN conversion) validated per path against pandas 3.0.5",
               "regex subset ('^[class]' match, '[^class]' sub) modelled over per-character code points and validated by witnesses"]


def bounds(tier):
    return {"string_length": "<=3 any code point, <=4 representative alphabet" if tier == "quick" else "<=7 / <=8", "rows": "0..3",
            "streams": "1..2", "tests": "1..2", "filters": "include/exclude by stream id, test name, function (enumerated)"}


LEVEL_TEXT = ("bounded symbolic model checking: cf_safe_name is executed on bounded symbolic strings (every code point) and z3 proves the "
              "CF-safety and in-place mapping; PandasStore.save/compute_aggregate are executed on symbolic flags/data/axes with "
              "enumerated ids and filters and z3 proves column set, row alignment and the roll-up column")
LEVEL_NOTE = "bounds: strings<=3..4 (quick) / 7..8 (thorough) chars, rows<=3; DataFrame is an environment model validated by per-path witnesses"
TECHNIQUE = "symbolic execution of the real Python source over modelled pandas/regex + z3 (strings as bounded code-point vectors)"
