"""C02 — a missing observation is never reported as evaluated."""
from __future__ import annotations

import z3

from symex.harness import Job, Struct
from symex.values import FALSE, TRUE, mk_and, mk_eq, mk_not, mk_or
from .common import FAIL, GOOD, MISSING, SUSPECT, UNKNOWN, flag_in, flag_is
from . import c03, c08, c09, c10, c11, c12, c13, c14


class Missing(Job):
    """wraps a base job; spec(S) -> per index (missing, undefined_anyway, needed_missing)"""
    prop = "C02"

    def __init__(self, base, spec, carrier="ndarray"):
        self.base, self.spec, self.carrier = base, spec, carrier
        self.name = f"missing[{carrier}]: " + base.name
        self.max_paths = getattr(base, "max_paths", 4000)
        self.max_seconds = getattr(base, "max_seconds", 900)

    def params(self):
        p = dict(self.base.params())
        p["missing_carrier"] = self.carrier
        return p

    def declare(self, V):
        S = self.base.declare(V)
        if hasattr(self.base, "valid_params"):
            V.assume(self.base.valid_params(S))
        if self.carrier == "masked":
            # arbitrary finite data underneath the mask: a second value per element used where the element is missing
            S._under = {}
            for name in self.spec["arrays"]:
                S._under[name] = V.floats(f"u_{name}", len(getattr(S, name)))
        return S

    def invoke(self, mods, S, K):
        if self.carrier == "ndarray":
            return self.base.invoke(mods, S, K)
        return self.base.invoke(mods, S, _CarrierKit(K, self.carrier, S))

    def holds(self, S, out):
        if out.raised:
            return [(f"returns without raising (raised {type(out.exc).__name__}: {str(out.exc)[:80]})", FALSE)]
        n = self.base.n
        if len(out.flags) != n:
            return [("one flag per element", FALSE)]
        obl = []
        for i in range(n):
            missing, undefined, needed = self.spec["f"](self.base, S, i, n)
            allowed = (MISSING, UNKNOWN) if undefined is True else (MISSING,)
            ok = flag_in(out.flags[i], allowed)
            if undefined is not True and undefined is not False:
                ok = mk_or(flag_is(out.flags[i], MISSING), mk_and(undefined, flag_is(out.flags[i], UNKNOWN)))
            obl.append((f"[{i}] a missing observation is MISSING (or UNKNOWN where the test is undefined)", mk_or(mk_not(missing), ok)))
            obl.append((f"[{i}] a present observation is MISSING only when a value it needs is missing",
                        mk_or(missing, mk_not(flag_is(out.flags[i], MISSING)), needed)))
        return obl


class _CarrierKit:
    """delegates to the real/symbolic kit but builds float arrays as python lists with None / masked arrays"""

    def __init__(self, K, carrier, S):
        self.K, self.carrier, self.S = K, carrier, S
        self.sym = K.sym

    def __getattr__(self, name):
        return getattr(self.K, name)

    def farray(self, vals, owner="caller"):
        if self.carrier == "list":
            return self.K.flist(vals)
        # masked array: mask = missing flag, data underneath = arbitrary finite number
        under = None
        for name, u in self.S._under.items():
            arr = getattr(self.S, name)
            if vals is arr:
                under = u
        if under is None:
            return self.K.farray(vals)
        if self.K.sym:
            from symex.values import SBool, SFloat, mk_if
            data = [SFloat(FALSE, mk_if(v.nan, u.v, v.v)) for v, u in zip(vals, under)]
            mask = [SBool(v.nan) for v in vals]
        else:
            data = [u if v != v else v for v, u in zip(vals, under)]
            mask = [v != v for v in vals]
        return self.K.marray(data, mask)


def _nan(x):
    return x.nan


def spec_simple(base, S, i, n):
    return S.x[i].nan, False, FALSE


def spec_spike(base, S, i, n):
    end = i in (0, n - 1)
    needed = FALSE if end else mk_or(S.x[i - 1].nan, S.x[i + 1].nan)
    return S.x[i].nan, end, needed


def spec_roc(base, S, i, n):
    return S.x[i].nan, False, (S.x[i - 1].nan if i > 0 else FALSE)


def spec_density(base, S, i, n):
    needed = S.z[i].nan
    if i > 0:
        needed = mk_or(needed, S.rho[i - 1].nan, S.z[i - 1].nan)
    return S.rho[i].nan, (n == 1), needed


def spec_location(base, S, i, n):
    both = mk_and(S.lon[i].nan, S.lat[i].nan)
    needed = mk_or(S.lon[i].nan, S.lat[i].nan)
    if i > 0:
        needed = mk_or(needed, S.lon[i - 1].nan, S.lat[i - 1].nan)
    return both, False, needed


def spec_speed(base, S, i, n):
    both = mk_and(S.lon[i].nan, S.lat[i].nan)
    needed = mk_or(S.lon[i].nan, S.lat[i].nan)
    if i > 0:
        needed = mk_or(needed, S.lon[i - 1].nan, S.lat[i - 1].nan)
    return both, (i == 0), needed


def spec_atten(base, S, i, n):
    return S.x[i].nan, False, FALSE


SPECS = {
    "simple": {"f": spec_simple, "arrays": ["x"]},
    "spike": {"f": spec_spike, "arrays": ["x"]},
    "roc": {"f": spec_roc, "arrays": ["x"]},
    "density": {"f": spec_density, "arrays": ["rho", "z"]},
    "location": {"f": spec_location, "arrays": ["lon", "lat"]},
    "speed": {"f": spec_speed, "arrays": ["lon", "lat"]},
    "clim": {"f": spec_simple, "arrays": ["x", "z"]},
}


def jobs(tier):
    N = 3 if tier == "quick" else 6
    M = c08.MemberShape
    out = []

    def add(base, spec, carriers=("ndarray", "list", "masked")):
        for c in carriers:
            if c != "ndarray" and base.n == 0:
                continue
            out.append(Missing(base, SPECS[spec], c))
    for n in range(0, N + 1):
        light = ("ndarray",) if n > 3 else ("ndarray", "list", "masked")
        add(c03.GrossRange(n, True), "simple", light)
        add(c03.ValidRange(n, "float64", True, False), "simple", ("ndarray",))
        add(c09.Spike(n, "average", True, True), "spike", light)
        add(c09.Spike(n, "differential", True, True), "spike", light)
        add(c10.RateOfChange(n), "roc", light)
        add(c13.Density(n, True, True), "density", light)
        add(c14.Location(n, "given", True), "location", light)
        if n <= 4:
            add(c11.FlatLine(n, 60), "simple", light)
            add(c10.Speed(n), "speed", light)
            add(c12.Attenuated(n, "range", False), "simple", light)
            add(c12.Attenuated(n, "range", True), "simple", ("ndarray",))
        if n in (3, 4):
            # time stamps in any order: where a value is missing does not depend on the order of the axis
            add(c10.RateOfChange(n, ordered=False), "roc", ("ndarray",))
        if n in (2, 3):
            # fixes less than a second apart: 0 whole seconds elapsed must not turn a present position into MISSING
            add(c10.Speed(n, frac=True, min_step=0), "speed", ("ndarray",))
        if n <= 3:
            add(c12.Attenuated(n, "std", False), "simple", ("ndarray", "masked"))
            add(c12.Attenuated(n, "std", True), "simple", ("ndarray",))
    # every climatology member shape: with/without depth span, absolute or periodic time span
    for n in ((1, 2) if tier == "quick" else (1, 2, 3)):
        for p in (None, "month", "week", "dayofyear", "quarter"):
            for f, z in ((True, False), (True, True), (False, True)):
                carriers = ("ndarray", "masked") if (n == 2 and p in (None, "month")) else ("ndarray",)
                add(c08.Climatology(n, [M(p, f, z)], prop="C02"), "clim", carriers)
        add(c08.Climatology(n, [M(None, True, True), M("month", False, True)], prop="C02"), "clim", ("ndarray", "list"))
    return out


FUNCTIONS = ["ioos_qc/qartod.py:gross_range_test", "ioos_qc/qartod.py:climatology_test", "ioos_qc/qartod.py:spike_test",
             "ioos_qc/qartod.py:rate_of_change_test", "ioos_qc/qartod.py:flat_line_test", "ioos_qc/qartod.py:attenuated_signal_test",
             "ioos_qc/qartod.py:density_inversion_test", "ioos_qc/qartod.py:location_test", "ioos_qc/argo.py:speed_test",
             "ioos_qc/axds.py:valid_range_test"]
OUTSIDE = ["series longer than the bound", "pressure_increasing_test (documents no missing-data handling)",
           "valid_range_test on lists / masked arrays (needs an ndarray-like input: C15)", "+-inf (neither finite nor a missing marker)"]
ASSUMPTIONS = ["numpy/pandas environment model validated per path against the real stack",
               "missing carriers: NaN in a float64 ndarray, None in a python list, masked element of a numpy masked array with "
               "arbitrary finite data underneath"]


def bounds(tier):
    return {"series_length": "0..3" if tier == "quick" else "0..6", "missing_placements": "all 2^n (free NaN flag per element, "
            "independently for data, depth, lon, lat)", "carriers": ["ndarray+NaN", "list+None", "masked array"]}


LEVEL_TEXT = ("bounded symbolic model checking: all 2^n placements of missing values in data and auxiliary inputs are one symbolic "
              "query per path of the real source; z3 proves missing => MISSING (UNKNOWN where undefined) and MISSING => a needed "
              "value is missing, for three carriers of missingness")
LEVEL_NOTE = "bounds: n<=3/6; grid G; environment model validated by per-path witnesses"
TECHNIQUE = "symbolic execution of the real Python source over a modelled numpy/pandas + z3 (SMT)"
