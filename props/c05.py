"""C05 — running a config through any stream equals calling each test on its window rows."""
from __future__ import annotations

import itertools
import warnings

import numpy as np
import z3

from symex import symnp as snp
from symex import sympd, symxr
from symex.harness import Job, Outcome, Struct
from symex.values import FALSE, TRUE, SBool, SFloat, SInt, STime, mk_and, mk_eq, mk_if, mk_not, mk_or, rv
from .c06 import enc, enc_array

PROBE_SRC = '''
def probe_test(inp, tinp=None, zinp=None, lat=None, lon=None, thr=0.0):
    """verification probe: records what it is given, flags by a threshold"""
    _PROBE_LOG.append({"inp": inp, "tinp": tinp, "zinp": zinp, "lat": lat, "lon": lon, "thr": thr})
    x = np.ma.masked_invalid(np.ma.filled(np.ma.array(inp).astype(np.float64), np.nan))
    flags = np.ma.ones(x.size, dtype="uint8")
    flags[x > thr] = 4
    flags[x.mask] = 9
    return flags
'''

FRONTENDS = ["numpy", "numpy_dict", "pandas", "pandas_idx", "netcdf", "xarray", "qcconfig"]
WINDOWS = ["none", "closed", "start", "end"]


def install_probe(qartod_mod):
    qartod_mod._PROBE_LOG = []
    exec(PROBE_SRC, qartod_mod.__dict__)
    return qartod_mod._PROBE_LOG


def remove_probe(qartod_mod):
    for k in ("_PROBE_LOG", "probe_test"):
        if k in qartod_mod.__dict__:
            del qartod_mod.__dict__[k]


class StreamRun(Job):
    prop = "C05"
    max_paths = 8000
    max_seconds = 1200

    def __init__(self, frontend, n, windows, axes=("z", "lat", "lon"), streams=1, tests=("probe_test",), sorted_times=None,
                 canary=None, prop="C05", offdim=None, wbound="timestamp", dcarrier="ndarray", nat=False):
        self.frontend, self.n, self.windows, self.axes, self.streams, self.tests = frontend, n, tuple(windows), tuple(axes), streams, tuple(tests)
        self.sorted_times = (frontend == "xarray") if sorted_times is None else sorted_times
        self.canary = canary
        self.prop = prop
        # xarray only: an extra variable `u` on another dimension (no time coordinate), configured first / last in every context;
        # nothing is claimed about `u` itself (it has no times to window), only that the time-series streams are unaffected
        self.offdim = offdim
        # how a window bound is written in the configuration: pandas Timestamp, ISO-8601 text (what YAML/JSON text gives),
        # numpy.datetime64 or datetime.datetime.  The symbolic run carries the same symbolic instant in every case (the library
        # only compares it with the time axis); the type matters on the real stack, where every witness / probe is replayed
        self.wbound = wbound
        # "masked": the data arrive as a numpy masked array - a missing observation is a masked element with an arbitrary
        # (symbolic) value underneath, which must not be judged
        self.dcarrier = dcarrier
        self.nat = nat       # rows of the time axis may be NaT: such a row satisfies no window
        self.name = (f"stream[{frontend}] n={n} windows={'+'.join(windows)} axes={','.join(axes) or '-'} streams={streams} "
                     f"tests={'+'.join(tests)}{' sorted' if self.sorted_times else ''}"
                     f"{' +variable-on-another-dimension-' + offdim if offdim else ''}"
                     f"{' window-bounds-as-' + wbound if wbound != 'timestamp' else ''}"
                     f"{' data-as-masked-array' if dcarrier == 'masked' else ''}{' NaT-rows' if nat else ''}") + (
            f" CANARY={canary}" if canary else "")
        if canary:
            self.expect_canary_sat = True
            self.validate_witnesses = False

    def params(self):
        return {"frontend": self.frontend, "rows": self.n, "windows": list(self.windows), "axes": list(self.axes), "streams": self.streams,
                "tests": list(self.tests), "sorted_times": self.sorted_times}

    # -- inputs ------------------------------------------------------------------------------------
    def declare(self, V):
        S = Struct()
        n = self.n
        if self.sorted_times:
            S.t = V.times_increasing("t", n, max_step=2 ** 20)
        else:
            S.t = [V.time(f"t{i}", nat=self.nat) for i in range(n)]
            for a, b in itertools.combinations(S.t, 2):
                V.assume(mk_not(mk_eq(a.s, b.s)))
        S.data = [V.floats(f"d{s}_", n, nan=True) for s in range(self.streams)]
        S.z = V.floats("z", n, nan=True)
        S.lat = V.floats("lat", n, nan=True, lo=-90, hi=90)
        S.lon = V.floats("lon", n, nan=True, lo=-180, hi=180)
        S.win = []
        for k, w in enumerate(self.windows):
            st = V.time(f"w{k}s") if w in ("closed", "start") else None
            en = V.time(f"w{k}e") if w in ("closed", "end") else None
            S.win.append((st, en))
        S.thr = [V.float(f"thr{k}", lo=-4, hi=4) for k in range(len(self.windows))]
        S.u = V.floats("u", n + 1, nan=True) if self.offdim else None
        S.hidden = [V.floats(f"h{s}_", n) for s in range(self.streams)] if self.dcarrier == "masked" else None
        if self.frontend == "pandas_idx":
            # arbitrary row labels: not 0..n-1, not sorted, possibly repeated (e.g. pd.concat without ignore_index)
            S.labels = [V.int(f"lab{i}", 0, n + 1) for i in range(n)]
        else:
            S.labels = None
        return S

    def stream_ids(self):
        if self.frontend == "qcconfig":
            return ["_stream"]
        return [f"v{s}" for s in range(self.streams)]

    def _config(self, mods, S, K):
        tw = mods.config.tw
        ids = self.stream_ids()
        contexts = []
        for k, (st, en) in enumerate(S.win):
            streams = {}
            for sid in ids:
                tests = {}
                for tname in self.tests:
                    if tname == "probe_test":
                        tests[tname] = {"thr": S.thr[k]}
                    elif tname == "spike_test":
                        tests[tname] = {"suspect_threshold": S.thr[k] * S.thr[k] if False else abs(S.thr[k]), "fail_threshold": 4}
                    elif tname == "rate_of_change_test":
                        tests[tname] = {"threshold": abs(S.thr[k])}
                streams[sid] = {"qartod": tests}
            if self.offdim:
                u = {"u": {"qartod": {"spike_test": {"suspect_threshold": 1, "fail_threshold": 4}}}}
                streams = {**u, **streams} if self.offdim == "first" else {**streams, **u}
            ctx = {"streams": streams}
            if st is not None or en is not None:
                ctx["window"] = tw(starting=K.tstamp(st) if st is not None else None, ending=K.tstamp(en) if en is not None else None)
            contexts.append(ctx)
        return {"contexts": contexts}

    def _run_stream(self, mods, S, K, cfg):
        fe = self.frontend
        ids = self.stream_ids()
        n = self.n
        t = K.tarray(S.t)
        if self.dcarrier == "masked":
            cols = {sid: K.marray([_pick(K, x, h) for x, h in zip(S.data[i], S.hidden[i])], [_isnan(K, x) for x in S.data[i]])
                    for i, sid in enumerate(ids)}
        else:
            cols = {sid: K.farray(S.data[i]) for i, sid in enumerate(ids)}
        ax = {"z": K.farray(S.z), "lat": K.farray(S.lat), "lon": K.farray(S.lon)}
        ax = {k: v for k, v in ax.items() if k in self.axes}
        if fe in ("numpy", "numpy_dict"):
            inp = cols[ids[0]] if fe == "numpy" else dict(cols)
            st = mods.streams.NumpyStream(inp=inp, time=t, **ax)
            return list(st.run(mods.config.Config(cfg)))
        if fe in ("pandas", "pandas_idx"):
            data = {"time": t}
            data.update(ax)
            data.update(cols)
            df = K.dataframe(data, index=K.iarray(S.labels) if S.labels is not None else None)
            st = mods.streams.PandasStream(df)
            return list(st.run(mods.config.Config(cfg)))
        if fe in ("netcdf", "xarray"):
            ds = K.dataset(time=t, data_vars={**cols, **ax}, other={"u": K.farray(S.u)} if self.offdim else None)
            cls = mods.streams.NetcdfStream if fe == "netcdf" else mods.streams.XarrayStream
            return list(cls(ds).run(mods.config.Config(cfg)))
        if fe == "qcconfig":
            with warnings.catch_warnings():
                warnings.simplefilter("ignore")
                qc = mods.config.QcConfig(cfg)
                kw = {"inp": cols[ids[0]], "tinp": t}
                if "z" in ax:
                    kw["zinp"] = ax["z"]
                for k in ("lat", "lon"):
                    if k in ax:
                        kw[k] = ax[k]
                return qc.run(**kw)
        raise ValueError(fe)

    def invoke(self, mods, S, K):
        K = _StreamKit(K, wbound=self.wbound)
        q = mods.qartod
        log = install_probe(q)
        try:
            cfg = self._config(mods, S, K)
            res = self._run_stream(mods, S, K, cfg)
            if self.offdim:
                res = [cr for cr in res if cr.stream_id != "u"]
            probe = list(log)
            # direct calls of the real neighbour/time dependent tests on the oracle's window rows
            direct = {}
            rows_of_window = {}
            for k, (st, en) in enumerate(S.win):
                rows = [r for r in range(self.n) if self._in_window_concrete(S, k, r)]
                rows_of_window[k] = rows
                for s, sid in enumerate(self.stream_ids()):
                    for tname in self.tests:
                        if tname == "probe_test":
                            continue
                        x = K.farray([S.data[s][r] for r in rows])
                        tt = K.tarray([S.t[r] for r in rows])
                        if tname == "spike_test":
                            direct[(k, sid, tname)] = q.spike_test(x, suspect_threshold=abs(S.thr[k]), fail_threshold=4)
                        else:
                            direct[(k, sid, tname)] = q.rate_of_change_test(x, tt, threshold=abs(S.thr[k]))
            return {"res": res, "probe": probe, "direct": direct, "rows": rows_of_window}
        finally:
            remove_probe(q)

    def _in_window_concrete(self, S, k, r):
        st, en = S.win[k]
        ok = True
        if st is not None:
            ok = ok and bool(S.t[r] >= st)
        if en is not None:
            ok = ok and bool(S.t[r] < en)
        return ok

    def _in_window(self, S, k, r):
        st, en = S.win[k]
        c = TRUE
        if (st is not None or en is not None) and self.nat:
            c = mk_not(S.t[r].nat)         # NaT compares False with every bound
        if st is not None:
            c = mk_and(c, S.t[r].s >= st.s)
        if en is not None:
            c = mk_and(c, (S.t[r].s <= en.s) if self.canary == "end_inclusive" else (S.t[r].s < en.s))
        return c

    # -- observation -------------------------------------------------------------------------------
    def observe(self, out):
        items = []
        res = out["res"]
        shape = []
        if self.frontend == "qcconfig":
            # dict of {package: {test: flags}} for the single stream
            for tname in self.tests:
                try:
                    arr = res["qartod"][tname]
                except Exception:
                    arr = None
                if arr is None:
                    items.append((f"qc:{tname}:absent", TRUE, TRUE, rv(0)))
                    shape.append((tname, None))
                    continue
                e = enc_array(arr)
                shape.append((tname, len(e)))
                for i, (m, nn, v) in enumerate(e):
                    items.append((f"qc:{tname}[{i}]", m, nn, v))
        else:
            for j, cr in enumerate(res):
                ent = {"stream": cr.stream_id, "tests": [t.test for t in cr.results]}
                for fld in ("subset_indexes", "data", "tinp", "zinp", "lat", "lon"):
                    e = enc_array(getattr(cr, fld))
                    ent[fld] = len(e)
                    for i, (m, nn, v) in enumerate(e):
                        items.append((f"cr{j}:{fld}[{i}]", m, nn, v))
                for t in cr.results:
                    e = enc_array(t.results)
                    ent["res:" + t.test] = len(e)
                    for i, (m, nn, v) in enumerate(e):
                        items.append((f"cr{j}:res:{t.test}[{i}]", m, nn, v))
                shape.append(ent)
        for j, p in enumerate(out["probe"]):
            for fld in ("inp", "tinp", "zinp", "lat", "lon"):
                v = p[fld]
                if v is None:
                    items.append((f"probe{j}:{fld}:absent", FALSE, TRUE, rv(0)))
                    continue
                arr = _to_array(v)
                e = enc_array(arr)
                items.append((f"probe{j}:{fld}:len", FALSE, FALSE, rv(len(e))))
                for i, (m, nn, val) in enumerate(e):
                    items.append((f"probe{j}:{fld}[{i}]", m, nn, val))
            tn, tv = enc(p["thr"])
            items.append((f"probe{j}:thr", FALSE, tn, tv))
        for (k, sid, tname), arr in out["direct"].items():
            for i, (m, nn, v) in enumerate(enc_array(arr)):
                items.append((f"direct:{k}:{sid}:{tname}[{i}]", m, nn, v))
        flags, mask = [], []
        for (lab, m, nn, v) in items:
            flags += [mk_if(m, rv(0), mk_if(nn, rv(1), rv(0))), mk_if(mk_or(m, nn), rv(0), v)]
            mask += [FALSE, FALSE]
            flags.append(mk_if(m, rv(1), rv(0)))
            mask.append(FALSE)
        return Outcome(flags=flags, mask=mask, shape=(len(flags),), extra={"items": items, "shape": shape, "nprobe": len(out["probe"]), "rows": out.get("rows", {})})

    # -- the property --------------------------------------------------------------------------------
    def holds(self, S, out):
        if out.raised:
            return [(f"the run completes ({type(out.exc).__name__}: {str(out.exc)[:100]})", FALSE)]
        items = {lab: (m, nn, v) for lab, m, nn, v in out.extra["items"]}
        n = self.n
        ids = self.stream_ids()
        obl = []

        def eq_item(lab, x, what):
            if lab not in items:
                obl.append((f"{lab} present ({what})", FALSE))
                return
            m, nn, v = items[lab]
            xn, xv = enc(x)
            obl.append((f"{lab}: {what}", mk_and(mk_not(m), mk_eq(nn, xn), mk_or(xn, mk_eq(v, xv)))))

        def rows_of(k):
            """symbolic selection: list of (row, in-window condition)"""
            return [(r, self._in_window(S, k, r)) for r in range(n)]

        def expect_rows(prefix, k, values, what, masked_is_missing=False):
            """array `prefix[i]` must be the window rows of `values` in original order (with a masked-array carrier a missing
            observation comes back as a masked element, whatever lies underneath)"""
            conds = rows_of(k)
            # i-th selected row = r  <=>  in(r) and exactly i rows before r are in the window
            cnt_before = []
            acc = z3.IntVal(0)
            for r, c in conds:
                cnt_before.append(acc)
                acc = acc + mk_if(c, z3.IntVal(1), z3.IntVal(0))
            total = acc
            length = sum(1 for lab in items if lab.startswith(prefix + "[") )
            obl.append((f"{prefix}: has one entry per window row ({what})", mk_eq(total, z3.IntVal(length))))
            for i in range(length):
                m, nn, v = items[f"{prefix}[{i}]"]
                alts = []
                for (r, c), cb in zip(conds, cnt_before):
                    xn, xv = enc(values[r])
                    same = mk_and(mk_not(m), mk_eq(nn, xn), mk_or(xn, mk_eq(v, xv)))
                    if masked_is_missing:
                        same = mk_or(mk_and(m, xn), mk_and(mk_not(m), mk_not(xn), mk_not(nn), mk_eq(v, xv)))
                    alts.append(mk_and(c, mk_eq(cb, z3.IntVal(i)), same))
                obl.append((f"{prefix}[{i}]: is the {i}-th window row ({what})", mk_or(*alts)))

        axes_vals = {"zinp": ("z", S.z), "lat": ("lat", S.lat), "lon": ("lon", S.lon)}
        if self.frontend == "qcconfig":
            # collected dict form: every row covered by a context carries that context's flag; contexts are applied in order
            for tname, ln in out.extra["shape"]:
                obl.append((f"qc:{tname}: one flag per input row", TRUE if ln == n else FALSE))
                if ln != n:
                    continue
                if tname != "probe_test":
                    # the real test: flags of the direct call on each context's window rows, later contexts overwrite earlier ones
                    rows_of_window = out.extra.get("rows", {})
                    for r in range(n):
                        exp = rv(2)
                        for k in range(len(self.windows)):
                            rows = rows_of_window.get(k, [])
                            lab = f"direct:{k}:{ids[0]}:{tname}[{rows.index(r)}]" if r in rows else None
                            if lab is not None and lab in items:
                                exp = items[lab][2]
                        m, nn, v = items[f"qc:{tname}[{r}]"]
                        obl.append((f"qc:{tname}[{r}]: flag of the direct call on the window rows of the (last) context holding the row",
                                    mk_and(mk_not(m), mk_eq(v, exp))))
                    continue
                for r in range(n):
                    exp = rv(2)
                    for k in range(len(self.windows)):
                        x = S.data[0][r]
                        f = mk_if(x.nan, rv(9), mk_if(x.v > S.thr[k].v, rv(4), rv(1)))
                        exp = mk_if(self._in_window(S, k, r), f, exp)
                    m, nn, v = items[f"qc:{tname}[{r}]"]
                    obl.append((f"qc:{tname}[{r}]: flag of the (last) context whose window holds the row, else UNKNOWN", mk_eq(v, exp)))
            nprobe_expected = len(self.windows)
        else:
            shape = out.extra["shape"]
            expected_crs = [(k, sid) for k in range(len(self.windows)) for sid in ids]
            if self.frontend == "xarray":
                # XarrayStream yields one ContextResult per call
                expected_crs = [(k, sid, tn) for k in range(len(self.windows)) for sid in ids for tn in self.tests]
            else:
                expected_crs = [(k, sid, tn) for k in range(len(self.windows)) for sid in ids for tn in self.tests]
            obl.append(("one ContextResult per (context, stream, test)", TRUE if len(shape) == len(expected_crs) else FALSE))
            if len(shape) != len(expected_crs):
                return obl
            for j, ((k, sid, tn), ent) in enumerate(zip(expected_crs, shape)):
                s = ids.index(sid)
                obl.append((f"cr{j}: stream id and test", TRUE if ent["stream"] == sid and ent["tests"] == [tn] else FALSE))
                obl.append((f"cr{j}: subset_indexes has one entry per input row", TRUE if ent["subset_indexes"] == n else FALSE))
                if ent["subset_indexes"] != n:
                    continue
                for r in range(n):
                    m, nn, v = items[f"cr{j}:subset_indexes[{r}]"]
                    obl.append((f"cr{j}: subset_indexes[{r}] <=> starting <= t < ending",
                                mk_eq(v, mk_if(self._in_window(S, k, r), rv(1), rv(0)))))
                expect_rows(f"cr{j}:data", k, S.data[s], "data restricted to the window rows", masked_is_missing=self.dcarrier == "masked")
                expect_rows(f"cr{j}:tinp", k, S.t, "times restricted to the window rows")
                for fld, (axn, vals) in axes_vals.items():
                    if axn in self.axes:
                        expect_rows(f"cr{j}:{fld}", k, vals, f"{axn} restricted to the window rows")
                # flags
                if tn == "probe_test":
                    flagvals = [SFloat(FALSE, mk_if(x.nan, rv(9), mk_if(x.v > S.thr[k].v, rv(4), rv(1)))) for x in S.data[s]]
                    expect_rows(f"cr{j}:res:{tn}", k, flagvals, "flags of the direct call on the window rows")
                else:
                    ln = ent.get("res:" + tn)
                    dl = sum(1 for lab in items if lab.startswith(f"direct:{k}:{sid}:{tn}["))
                    obl.append((f"cr{j}:res:{tn}: same length as the direct call", TRUE if ln == dl else FALSE))
                    if ln == dl:
                        for i in range(ln):
                            a, b = items[f"cr{j}:res:{tn}[{i}]"], items[f"direct:{k}:{sid}:{tn}[{i}]"]
                            obl.append((f"cr{j}:res:{tn}[{i}] equals the direct call on the window rows",
                                        mk_and(mk_eq(a[0], b[0]), mk_eq(a[2], b[2]))))
            nprobe_expected = sum(1 for e in expected_crs if e[2] == "probe_test")
        # what the probe received
        if "probe_test" in self.tests:
            obl.append(("the probe was called once per (context, stream)", TRUE if out.extra["nprobe"] == nprobe_expected else FALSE))
            if out.extra["nprobe"] == nprobe_expected:
                j = 0
                for k in range(len(self.windows)):
                    for s, sid in enumerate(ids):
                        expect_rows(f"probe{j}:inp", k, S.data[s], "inp handed to the test")
                        expect_rows(f"probe{j}:tinp", k, S.t, "tinp handed to the test")
                        for fld, (axn, vals) in axes_vals.items():
                            if axn in self.axes:
                                expect_rows(f"probe{j}:{fld}", k, vals, f"{fld} handed to the test")
                            else:
                                obl.append((f"probe{j}:{fld} not supplied", TRUE if f"probe{j}:{fld}:absent" in items else FALSE))
                        eq_item(f"probe{j}:thr", S.thr[k], "the context's configured parameter")
                        j += 1
        return obl


def _to_array(v):
    if isinstance(v, (snp.ndarray,)):
        return v
    if isinstance(v, sympd.Series):
        return v.values_arr()
    if isinstance(v, sympd.Index):
        return v.arr
    if isinstance(v, np.ndarray):
        return v
    import pandas as pd
    if isinstance(v, (pd.Series, pd.Index)):
        return v.to_numpy()
    return np.asarray(v)


def _isnan(K, x):
    if K.sym:
        return SBool(x.nan)
    return x != x


def _pick(K, x, h):
    """value stored in the masked array: the observation, or an arbitrary hidden value where it is missing"""
    if K.sym:
        return SFloat(FALSE, mk_if(x.nan, h.v, x.v))
    return h if x != x else x


class _StreamKit:
    def __init__(self, K, wbound="timestamp"):
        self.K = K
        self.sym = K.sym
        self.wbound = wbound

    def __getattr__(self, name):
        return getattr(self.K, name)

    def tstamp(self, v):
        if self.K.sym:
            return v
        import pandas as pd
        w = self.__dict__.get("wbound", "timestamp")
        if w == "iso":
            return pd.Timestamp(v).isoformat()
        if w == "datetime64":
            return np.datetime64(pd.Timestamp(v).to_datetime64(), "ns")
        if w == "datetime":
            return pd.Timestamp(v).to_pydatetime()
        return pd.Timestamp(v)

    def dataframe(self, data, index=None):
        if self.K.sym:
            from symex.symdf import DataFrame
            df = DataFrame(index=sympd.Index(index) if index is not None else None)
            for k, v in data.items():
                df[k] = v
            return df
        import pandas as pd
        return pd.DataFrame(data, index=index)

    def dataset(self, time, data_vars, other=None):
        dv = {k: (("time",), v) for k, v in data_vars.items()}
        dv.update({k: (("obs",), v) for k, v in (other or {}).items()})
        if self.K.sym:
            return symxr.Dataset(data_vars=dv, coords={"time": (("time",), time)})
        import xarray as xr
        return xr.Dataset(dv, coords={"time": time})


def jobs(tier):
    out = []
    n = 2 if tier == "quick" else 3
    for fe in FRONTENDS:
        for w in WINDOWS:
            out.append(StreamRun(fe, n, (w,)))
        out.append(StreamRun(fe, n, ("closed", "none")))
        # two contexts whose windows interact through anything shared between loop iterations
        out.append(StreamRun(fe, n, ("end", "start")))
        out.append(StreamRun(fe, n, ("start", "end"), axes=("z",)))
        out.append(StreamRun(fe, n, ("closed", "closed"), axes=()))
        out.append(StreamRun(fe, n, ("end", "none"), axes=()))
        out.append(StreamRun(fe, n, ("closed",), axes=()))
        # only some of the auxiliary axes present (a missing middle one must not shift the others)
        out.append(StreamRun(fe, n, ("closed",), axes=("lat", "lon")))
        out.append(StreamRun(fe, n, ("none",), axes=("z", "lon")))
        out.append(StreamRun(fe, n, ("start",), axes=("z",), tests=("probe_test", "spike_test")))
        if fe != "qcconfig":
            out.append(StreamRun(fe, 3, ("closed",), axes=(), tests=("rate_of_change_test",)))
        if fe in ("numpy", "numpy_dict", "pandas", "qcconfig"):
            out.append(StreamRun(fe, n, ("closed",), axes=(), nat=True, sorted_times=False))
            out.append(StreamRun(fe, n, ("end", "start"), axes=(), nat=True, sorted_times=False))
        if fe in ("numpy", "numpy_dict", "qcconfig"):      # (a DataFrame / Dataset column cannot hold a masked array)
            out.append(StreamRun(fe, n, ("closed",), axes=(), tests=("spike_test",), dcarrier="masked"))
            out.append(StreamRun(fe, 3, ("start",), axes=(), tests=("spike_test",), dcarrier="masked"))
        if fe != "qcconfig":
            for wb in ("iso", "datetime64", "datetime"):
                out.append(StreamRun(fe, n, ("closed",), axes=(), wbound=wb))
        if fe == "xarray":
            out.append(StreamRun(fe, n, ("closed",), axes=("z",), offdim="first"))
            out.append(StreamRun(fe, n, ("start", "end"), axes=(), offdim="last"))
            out.append(StreamRun(fe, n, ("end", "none"), axes=(), offdim="first", tests=("probe_test", "spike_test")))
        if fe not in ("numpy", "qcconfig"):
            out.append(StreamRun(fe, n, ("end",), streams=2))
        out.append(StreamRun(fe, 0, ("closed",)))
        out.append(StreamRun(fe, 1, ("closed",)))
    if tier == "thorough":
        for fe in FRONTENDS:
            out.append(StreamRun(fe, 3, ("closed", "end"), streams=1 if fe in ("numpy", "qcconfig") else 2))
            out.append(StreamRun(fe, 4, ("closed",), axes=("z", "lat", "lon")))
    out.append(StreamRun("pandas", 2, ("closed",), canary="end_inclusive"))
    return out


FUNCTIONS = ["ioos_qc/streams.py:PandasStream", "ioos_qc/streams.py:NumpyStream", "ioos_qc/streams.py:NetcdfStream",
             "ioos_qc/streams.py:XarrayStream", "ioos_qc/config.py:Config", "ioos_qc/config.py:ContextConfig", "ioos_qc/config.py:Call",
             "ioos_qc/config.py:QcConfig", "ioos_qc/results.py:collect_results_dict", "ioos_qc/utils.py:mapdates"]
OUTSIDE = ["more rows / contexts than the bound", "multi-dimensional variables", "region subsetting (a no-op in the code)",
           "netCDF files on disk (the dataset object is passed in)", "geom columns", "xarray: unsorted or duplicate time coordinates",
           "overlapping windows for QcConfig.run (later context wins in the dict form)"]
ASSUMPTIONS = ["pandas DataFrame / xarray Dataset environment models (row selection, label slices, copy-on-write read-only arrays) "
               "validated per path against pandas 3.0.5 / xarray 2026.7", "distinct whole-second row times (sorted for xarray)",
               "a probe test registered in ioos_qc.qartod at run time records the arguments each call receives"]


def bounds(tier):
    return {"rows": "0..2 (3 for rate_of_change)" if tier == "quick" else "0..4", "contexts": "1..2", "windows": WINDOWS,
            "frontends": FRONTENDS, "streams": "1..2", "axes": "all / z only / none"}


LEVEL_TEXT = ("bounded symbolic model checking of the real stream front ends + Config/ContextConfig/Call: row times, window bounds, "
              "index labels and data are symbolic; z3 proves subset_indexes <=> starting<=t<ending, that the arrays handed to a probe "
              "test and recorded in each ContextResult are exactly the window rows in order, and that flags equal the direct call")
LEVEL_NOTE = "bounds: rows<=2(3)/4, contexts<=2; pandas/xarray are environment models validated by per-path witnesses on the real stack"
TECHNIQUE = "symbolic execution of the real Python source over modelled numpy/pandas/xarray + z3"
