"""C11 — flat line: window ending at a point varies less than tolerance."""
from __future__ import annotations

import z3

from symex.harness import Job, Struct
from symex.values import FALSE, TRUE, STime, mk_and, mk_eq, mk_if, mk_not, mk_or, rv
from .common import (FAIL, GOOD, MISSING, SUSPECT, cases, flag_in, flag_is, iv, shape_obligations)


def window_range_lt(xs, tol):
    """(max - min over present values of xs) < tol, as a z3 Bool; xs non-empty list of SFloat, at least one present"""
    have = FALSE
    mx = mn = rv(0)
    for x in xs:
        pres = mk_not(x.nan)
        mx = mk_if(mk_and(pres, mk_or(mk_not(have), x.v > mx)), x.v, mx)
        mn = mk_if(mk_and(pres, mk_or(mk_not(have), x.v < mn)), x.v, mn)
        have = mk_or(have, pres)
    return mk_and(have, (mx - mn) < tol)


class FlatLine(Job):
    prop = "C11"
    max_paths = 6000

    def __init__(self, n, D, thr_kind="int", tcarrier="datetime64", canary=None):
        self.n, self.D, self.thr_kind, self.tcarrier, self.canary = n, D, thr_kind, tcarrier, canary
        self.name = f"flat_line n={n} step={D}s thresholds={thr_kind} time={tcarrier}" + (f" CANARY={canary}" if canary else "")
        if canary:
            self.expect_canary_sat = True
            self.validate_witnesses = False

    def params(self):
        return {"n": self.n, "step_s": self.D, "threshold_kind": self.thr_kind, "time_carrier": self.tcarrier}

    def declare(self, V):
        S = Struct()
        S.x = V.floats("x", self.n, nan=True)
        t0 = V.time("t0")
        from symex import calendar_model as cal
        V.assume(t0.s + self.n * self.D < cal.t_hi())
        S.t = [STime(t0.s + i * self.D) for i in range(self.n)]
        hi = (self.n + 2) * self.D
        if self.thr_kind == "int":
            S.st = V.int("st", 0, hi)
            S.ft = V.int("ft", 0, hi)
        else:
            S.st = V.float("st", lo=0, hi=hi)
            S.ft = V.float("ft", lo=0, hi=hi)
        S.tol = V.float("tol", lo=0)
        return S

    def offgrid_pins(self, S):
        """tolerance far below grid G.  Sound for the unchanged code: window maxima / minima of grid values are grid values, their
        difference is exact in binary64 (both on a 2^-10 grid, magnitude <= 2^21), and `range < tolerance` compares two floats
        exactly - so binary64 and the reals agree for ANY float tolerance."""
        from fractions import Fraction
        return [("tolerance = 2^-60", {S.tol.v: Fraction(1, 2 ** 60)}), ("tolerance = 2^-40", {S.tol.v: Fraction(1, 2 ** 40)})]

    def invoke(self, mods, S, K):
        t = K.tarray(S.t) if self.tcarrier == "datetime64" else K.epoch_array(S.t)
        return mods.qartod.flat_line_test(K.farray(S.x), t, suspect_threshold=S.st, fail_threshold=S.ft, tolerance=S.tol)

    def _k(self, thr):
        if self.thr_kind == "int":
            return thr.v / self.D
        return z3.ToInt(thr.v) / self.D      # int() truncates a non-negative float; then floor division by the step

    def holds(self, S, out):
        if out.raised:
            return [("flat_line_test does not raise for a valid call", FALSE)]
        n = self.n
        obl = shape_obligations(out, n)
        if n < 3:
            for i in range(n):
                obl.append((f"short series: flag[{i}] is never SUSPECT/FAIL", mk_not(flag_in(out.flags[i], (SUSPECT, FAIL)))))
            return obl
        ks, kf = self._k(S.st), self._k(S.ft)

        def hit(kterm, p):
            alts = []
            for kv in range(0, p + 1):
                w = S.x[p - kv:p + 1]
                if self.canary == "window_short" and kv > 0:
                    w = S.x[p - kv + 1:p + 1]
                alts.append(mk_and(mk_eq(kterm, iv(kv)), window_range_lt(w, S.tol.v)))
            return mk_or(*alts)
        for p in range(n):
            exp = cases((hit(kf, p), FAIL), (hit(ks, p), SUSPECT), default=GOOD)
            obl.append((f"flag[{p}] follows the window ending at {p} (present value)",
                        mk_or(S.x[p].nan, mk_eq(out.flags[p], exp))))
            obl.append((f"flag[{p}]: missing value is MISSING", mk_or(mk_not(S.x[p].nan), flag_is(out.flags[p], MISSING))))
        return obl


def jobs(tier):
    out = []
    steps = (1, 60) if tier == "quick" else (1, 7, 60, 900, 3600)
    N = 4 if tier == "quick" else 5
    for D in steps:
        for n in range(0, N + 1):
            out.append(FlatLine(n, D))
    out.append(FlatLine(3, 60, thr_kind="float"))
    out.append(FlatLine(3, 60, tcarrier="epoch"))
    if tier == "thorough":
        out.append(FlatLine(6, 60))
        out.append(FlatLine(4, 7, thr_kind="float"))
    out.append(FlatLine(3, 60, canary="window_short"))
    return out


def lemmas(tier):
    from symex import lemmas as L
    return [L.lemma_F()]


FUNCTIONS = ["ioos_qc/qartod.py:flat_line_test", "ioos_qc/qartod.py:rolling_window", "ioos_qc/qartod.py:run_test",
             "ioos_qc/utils.py:mapdates"]
OUTSIDE = ["series longer than the bound", "irregular sampling (the property is stated for a regular step)",
           "sampling steps other than the enumerated ones (step is concrete per job: symbolic floor(thr/D) with symbolic D is "
           "non-linear)", "thresholds above (n+2)*D (all behave like 'longer than the series')", "values off grid G"]
ASSUMPTIONS = ["numpy / numpy.ma / as_strided environment model validated per path (cells past the buffer end are havoc symbols)",
               "Lemma F: int(float(a)/float(b)) == a // b for the bounded operands (discharged per run)",
               "on grid G max-min and |.| are exact in binary64 (Lemma E)"]


def bounds(tier):
    return {"series_length": "0..4" if tier == "quick" else "0..6", "sampling_step_s": [1, 60] if tier == "quick" else [1, 7, 60, 900, 3600],
            "thresholds": "symbolic in [0,(n+2)*step], int and float", "tolerance": "symbolic >= 0"}


LEVEL_TEXT = ("bounded symbolic model checking of the real flat_line_test source incl. its strided rolling window: values, NaN "
              "placement, both durations and the tolerance are symbolic; the window count is concretised by forking; z3 proves "
              "each flag equals the property's window rule")
LEVEL_NOTE = "bounds: n<=4/6, concrete sampling steps, grid G; strided reads past the buffer are havoc (any dependence is reported)"
TECHNIQUE = "symbolic execution of the real Python source over a modelled numpy (incl. as_strided) + z3 (SMT, LIRA)"
