"""C12 — attenuated signal: spread of the trailing window vs thresholds."""
from __future__ import annotations

import itertools

import z3

from symex.harness import Job, Struct
from symex.values import FALSE, TRUE, STime, mk_and, mk_eq, mk_if, mk_not, mk_or, rv
from .common import (FAIL, GOOD, MISSING, SUSPECT, UNKNOWN, cases, flag_in, flag_is, iv, shape_obligations)


def variance(vals, ddof):
    m = len(vals)
    mean = sum(vals[1:], vals[0]) / m
    acc = None
    for v in vals:
        d = v - mean
        acc = d * d if acc is None else acc + d * d
    return acc / (m - ddof)


def spread_below(vals, thr, kind, ddof):
    """(spread of the concrete list of z3 Reals `vals`) < thr ; thr >= 0 assumed for std"""
    if kind == "range":
        mx = mn = vals[0]
        for v in vals[1:]:
            mx = mk_if(v > mx, v, mx)
            mn = mk_if(v < mn, v, mn)
        return (mx - mn) < thr
    if len(vals) == 1:
        return rv(0) < thr
    return mk_and(thr > 0, variance(vals, ddof) < thr * thr)


class Attenuated(Job):
    prop = "C12"
    max_paths = 20000
    max_seconds = 1500

    def __init__(self, n, check, period, minmode=None, step=None, canary=None, steps=None, frac=False, pfrac=False):
        self.n, self.check, self.period, self.minmode, self.step, self.canary = n, check, period, minmode, step, canary
        self.frac = frac            # time stamps carry a sub-second part
        self.pfrac = pfrac          # test_period is a float number of seconds (eighths of a second)
        self.steps = steps          # concrete irregular steps (n-1 of them): the sampling step is their median
        if steps is not None:
            import statistics
            self.step = int(statistics.median(steps))
            step = f"irregular{tuple(steps)}"
        self.name = (f"attenuated n={n} check={check} period={'y' if period else 'n'} min={minmode}"
                     + (f" step={step}s" if step else "") + (" sub-second stamps" if frac else "") + (" fractional test_period" if pfrac else "") + (f" CANARY={canary}" if canary else ""))
        if canary:
            self.expect_canary_sat = True
            self.validate_witnesses = False

    def params(self):
        return {"n": self.n, "check_type": self.check, "test_period": self.period, "min": self.minmode, "step": self.step}

    def declare(self, V):
        S = Struct()
        n = self.n
        S.x = V.floats("x", n, nan=True, lo=-1024, hi=1024)
        if self.steps is not None:
            t0 = V.time("t0")
            from symex import calendar_model as cal
            V.assume(t0.s + sum(self.steps) < cal.t_hi())
            offs = [0]
            for d in self.steps:
                offs.append(offs[-1] + d)
            S.t = [STime(t0.s + o) for o in offs[:n]]
        elif self.step:
            t0 = V.time("t0")
            from symex import calendar_model as cal
            V.assume(t0.s + n * self.step < cal.t_hi())
            S.t = [STime(t0.s + i * self.step) for i in range(n)]
        else:
            S.t = V.times_increasing("t", n, max_step=2 ** 12, frac=self.frac)
        S.st = V.float("st", lo=0, hi=4096)
        S.ft = V.float("ft", lo=0, hi=4096)
        if self.period and self.pfrac:
            S.P = V.float("P", lo=1, hi=2 ** 10)
            V.assume(z3.IsInt(S.P.v * 8))          # exact both in binary64 and in pandas' ns offsets
        else:
            S.P = V.int("P", 1, 2 ** 14) if self.period else None
        S.min_obs = V.int("min_obs", 0, n + 1) if self.minmode == "obs" else None
        S.min_period = V.int("min_period", 0, (n + 1) * (self.step or 1)) if self.minmode == "period" else None
        return S

    def offgrid_transforms(self):
        """whole-series spread of data carrying a large common offset (2^40; grid values stay exact in binary64): the spread is
        translation invariant.  Probed only where the exact spread is >= 1 and at least 2 % away from both thresholds: the
        unchanged two-pass np.std / np.ptp lose at most ~2^-12 absolute in the mean there, i.e. well under 0.1 % of the spread."""
        if self.period or self.check not in ("std", "range", "default"):
            return []
        from fractions import Fraction
        OFF = float(2 ** 40)

        def shift(Sc):
            out = Struct(**vars(Sc))
            out.x = [v if v != v else v + OFF for v in Sc.x]
            return out

        def safe(Sc):
            vals = [Fraction(v) for v in Sc.x if v == v]
            if len(vals) < 2:
                return False
            if self.check == "range":
                spread2 = (max(vals) - min(vals)) ** 2
            else:
                mean = sum(vals) / len(vals)
                spread2 = sum((v - mean) ** 2 for v in vals) / len(vals)
            for t in (Sc.st, Sc.ft):
                t2 = Fraction(t) ** 2
                if abs(spread2 - t2) * 50 < max(spread2, t2):
                    return False
            return spread2 >= 1
        return [("data offset by 2^40", shift, safe)]

    def invoke(self, mods, S, K):
        kw = {"suspect_threshold": S.st, "fail_threshold": S.ft}
        if self.check != "default":
            kw["check_type"] = self.check
        if S.P is not None:
            kw["test_period"] = S.P
        if S.min_obs is not None:
            kw["min_obs"] = S.min_obs
        if S.min_period is not None:
            kw["min_period"] = S.min_period
        return mods.qartod.attenuated_signal_test(K.farray(S.x), K.tarray(S.t), **kw)

    def holds(self, S, out):
        check = "std" if self.check == "default" else self.check
        if check not in ("std", "range"):
            return [("an unknown check_type is rejected with ValueError",
                     TRUE if out.raised and isinstance(out.exc, ValueError) else FALSE)]
        if out.raised:
            return [("attenuated_signal_test does not raise for a valid call", FALSE)]
        n = self.n
        obl = shape_obligations(out, n)
        for i in range(n):
            obl.append((f"flag[{i}]: missing value is MISSING", mk_or(mk_not(S.x[i].nan), flag_is(out.flags[i], MISSING))))
        if S.P is None:
            # spread of all present values (population std / range), one value for the whole series
            alts = []
            for pattern in itertools.product((False, True), repeat=n):
                if not any(pattern):
                    continue
                cond = mk_and(*[(mk_not(S.x[j].nan) if pattern[j] else S.x[j].nan) for j in range(n)])
                vals = [S.x[j].v for j in range(n) if pattern[j]]
                exp = cases((spread_below(vals, S.ft.v, check, 0), FAIL), (spread_below(vals, S.st.v, check, 0), SUSPECT),
                            default=GOOD)
                alts.append((cond, exp))
            for i in range(n):
                ok = mk_or(*[mk_and(c, mk_eq(out.flags[i], e)) for c, e in alts])
                obl.append((f"flag[{i}] follows the spread of all present values (present value)", mk_or(S.x[i].nan, ok)))
            return obl
        # trailing window (t - P, t]
        if S.min_obs is not None:
            need = S.min_obs.v
        elif S.min_period is not None:
            need = S.min_period.v / self.step          # min_period divided by the (regular) sampling step
        else:
            need = iv(1)
        if self.frac or self.pfrac:
            tv = [z3.ToReal(t.s) + (t.f if getattr(t, "f", None) is not None else 0) for t in S.t]
            P = S.P.v if self.pfrac else z3.ToReal(S.P.v)
        else:
            tv = [t.s for t in S.t]
            P = S.P.v
        for i in range(n):
            alts = []
            for a in range(0, i + 1):
                # window = rows a..i
                incond = (tv[i] - P < tv[a]) if self.canary != "closed_left" else (tv[i] - P <= tv[a])
                starts = mk_and(incond, TRUE if a == 0 else mk_not((tv[i] - P < tv[a - 1])
                                                                   if self.canary != "closed_left" else
                                                                   (tv[i] - P <= tv[a - 1])))
                rows = list(range(a, i + 1))
                for pattern in itertools.product((False, True), repeat=len(rows)):
                    if not pattern[-1]:
                        continue      # point i itself is present in this obligation
                    cond = mk_and(starts, *[(mk_not(S.x[j].nan) if p else S.x[j].nan) for j, p in zip(rows, pattern)])
                    vals = [S.x[j].v for j, p in zip(rows, pattern) if p]
                    cnt = len(vals)
                    enough = iv(cnt) >= need
                    if check == "std":
                        defined = cnt >= 2
                        exp_def = cases((spread_below(vals, S.ft.v, "std", 1), FAIL), (spread_below(vals, S.st.v, "std", 1), SUSPECT),
                                        default=GOOD) if defined else iv(UNKNOWN)
                        ok = mk_if(enough, mk_eq(out.flags[i], exp_def), flag_is(out.flags[i], UNKNOWN))
                    else:
                        exp_def = cases((spread_below(vals, S.ft.v, "range", 0), FAIL),
                                        (spread_below(vals, S.st.v, "range", 0), SUSPECT), default=GOOD)
                        # the spread is that of the values *observed* in the window: a missing value is not an observation
                        # (as in the std path and in the whole-series path)
                        ok = mk_if(enough, mk_eq(out.flags[i], exp_def), flag_is(out.flags[i], UNKNOWN))
                    alts.append(mk_and(cond, ok))
            obl.append((f"flag[{i}] follows the spread of the window (t-P, t] (present value)", mk_or(S.x[i].nan, mk_or(*alts))))
        return obl


def jobs(tier):
    out = []
    N = 3 if tier == "quick" else 4
    for check in ("std", "range"):
        for n in range(0, N + 1):
            out.append(Attenuated(n, check, False))
        for n in range(0, N + 1):
            for minmode in (None, "obs"):
                if tier == "quick" and n == N and check == "std" and minmode == "obs":
                    continue
                out.append(Attenuated(n, check, True, minmode))
        for n in (2, 3):
            out.append(Attenuated(n, check, True, "period", step=60))
        # irregular sampling: the step that converts min_period into a number of observations is the *median* step
        out.append(Attenuated(4, check, True, "period", steps=(10, 10, 50)))
        if tier == "thorough":
            out.append(Attenuated(4, check, True, "period", steps=(5, 60, 5)))
    # sub-second stamps: the window (t - P, t] is decided on the exact stamps, not on floored seconds
    out.append(Attenuated(3, "range", True, frac=True))
    out.append(Attenuated(2 if tier == "quick" else 3, "std", True, "obs", frac=True))
    # test_period given as a float number of seconds
    out.append(Attenuated(3, "range", True, pfrac=True))
    out.append(Attenuated(2, "std", True, "obs", pfrac=True, frac=True))
    out.append(Attenuated(2, "default", False))
    out.append(Attenuated(2, "variance", False))
    out.append(Attenuated(2, "Range", True))
    out.append(Attenuated(3, "range", True, canary="closed_left"))
    return out


FUNCTIONS = ["ioos_qc/qartod.py:attenuated_signal_test", "ioos_qc/utils.py:mapdates"]
OUTSIDE = ["series longer than the bound (std: n<=3 quick / 4 thorough)", "spreads within 2^-20 of a threshold (the property's own exclusion; "
           "std is never evaluated as a square root: comparisons are lowered to variance vs threshold^2)",
           "negative thresholds", "min_period with irregular sampling (floor(min_period/median step) is non-linear): regular 60 s step only",
           "values beyond +-1024"]
ASSUMPTIONS = ["numpy.ma and pandas Series.rolling('<P>s', min_periods).std()/.apply(np.ptp, raw=True) environment model validated per "
               "path against pandas 3.0.5 (window (t-P,t], min_periods counts non-NaN observations, ddof=1)",
               "thresholds >= 0, test_period >= 1 whole seconds, strictly increasing times (whole seconds; sub-second stamps in dedicated jobs)"]


def bounds(tier):
    return {"series_length": "0..3" if tier == "quick" else "0..4", "check_type": ["std", "range", "other -> ValueError"],
            "test_period": "absent / symbolic 1..2^14 s", "min_obs": "absent / symbolic 0..n+1", "min_period": "symbolic, regular 60 s step",
            "time_steps": "symbolic 1..2^12 s"}


LEVEL_TEXT = ("bounded symbolic model checking of the real attenuated_signal_test source (whole-series and rolling-window paths); "
              "window membership and missing patterns are forked, std is compared through its exact variance (QF_NRA)")
LEVEL_NOTE = "bounds: n<=3/4; pandas rolling is an environment model validated by witnesses; spreads within 2^-20 of a threshold excluded"
TECHNIQUE = "symbolic execution of the real Python source over a modelled numpy/pandas + z3 (SMT, QF_NRA for the variance)"
