"""C20 — generated configs evaluate their limit expressions correctly and statelessly."""
from __future__ import annotations

import itertools
from fractions import Fraction

import z3

from symex import explorer as _ex
from symex.harness import Job, Outcome, Struct
from symex.symstr import SStr
from symex.values import FALSE, TRUE, SBool, SFloat, Sym, mk_and, mk_eq, mk_if, mk_not, mk_or, rv

STATS = ("mean", "std", "min", "max")
LEAVES = ["mean", "std", "min", "max", "2", "0.5", "3", "1e1"]
PREC = {"+": 1, "-": 1, "*": 2, "/": 2}


# -- expression trees ----------------------------------------------------------------------------------------
def render(t, parent=0, right=False):
    kind = t[0]
    if kind == "leaf":
        return t[1]
    if kind == "neg":
        inner = render(t[1], 3, False)
        return f"-{inner}"
    op, a, b = t[1], t[2], t[3]
    p = PREC[op]
    s = f"{render(a, p, False)} {op} {render(b, p, True)}"
    if p < parent or (p == parent and right):
        return f"({s})"
    return s


def evaluate(t, env):
    """ordinary arithmetic value over z3 Reals; returns (value, list of denominators)"""
    kind = t[0]
    if kind == "leaf":
        if t[1] in STATS:
            return env[t[1]], []
        return rv(Fraction(float(t[1]))), []
    if kind == "neg":
        v, d = evaluate(t[1], env)
        return -v, d
    op, a, b = t[1], t[2], t[3]
    va, da = evaluate(a, env)
    vb, db = evaluate(b, env)
    if op == "+":
        return va + vb, da + db
    if op == "-":
        return va - vb, da + db
    if op == "*":
        return va * vb, da + db
    return va / vb, da + db + [vb]


def trees(depth):
    out = []
    leaf_cycle = itertools.cycle(LEAVES)

    def L():
        return ("leaf", next(leaf_cycle))
    for o1 in PREC:
        out.append(("bin", o1, L(), L()))
        out.append(("bin", o1, ("neg", L()), L()))
        out.append(("bin", o1, L(), ("neg", L())))
        for o2 in PREC:
            out.append(("bin", o2, ("bin", o1, L(), L()), L()))
            out.append(("bin", o2, L(), ("bin", o1, L(), L())))
            out.append(("neg", ("bin", o2, L(), ("bin", o1, L(), L()))))
            if depth >= 3:
                for o3 in PREC:
                    out.append(("bin", o3, ("bin", o1, L(), L()), ("bin", o2, L(), L())))
                    out.append(("bin", o3, ("bin", o2, ("bin", o1, L(), L()), L()), L()))
                    out.append(("bin", o3, L(), ("bin", o2, L(), ("bin", o1, ("neg", L()), L()))))
    out.append(("leaf", "mean"))
    out.append(("neg", ("leaf", "std")))
    out.append(("neg", ("neg", ("leaf", "3"))))
    return out


class Poison:
    """a stale stack entry from an earlier evaluation: any inspection is a violation"""
    touched = 0

    def _t(self, *a):
        Poison.touched += 1
        return False

    __eq__ = __ne__ = __contains__ = _t
    __hash__ = object.__hash__

    def __getitem__(self, i):
        Poison.touched += 1
        raise TypeError("poison token inspected")


class EvalFx(Job):
    prop = "C20"

    def __init__(self, batch_id, exprs, history, canary=None):
        self.batch_id, self.exprs, self.history, self.canary = batch_id, exprs, history, canary
        self.n = len(exprs)
        self.name = f"eval_fx batch={batch_id} ({len(exprs)} expressions) history={history}" + (f" CANARY={canary}" if canary else "")
        if canary:
            self.expect_canary_sat = True
            self.validate_witnesses = False

    def params(self):
        return {"expressions": [render(t) for t in self.exprs][:6] + ["..."], "count": len(self.exprs), "history": self.history}

    def declare(self, V):
        S = Struct()
        S.stats = {k: V.float(k, lo=-64, hi=64) for k in STATS}
        env = {k: v.v for k, v in S.stats.items()}
        for t in self.exprs:
            _, dens = evaluate(t, env)
            V.assume(*[mk_not(mk_eq(d, rv(0))) for d in dens])      # division by zero has no arithmetic value
        return S

    def model_constraints(self, S):
        # replay in binary64: stay away from zero denominators by a margin
        env = {k: v.v for k, v in S.stats.items()}
        out = []
        for t in self.exprs:
            _, dens = evaluate(t, env)
            out += [z3.Or(d >= rv(Fraction(1, 64)), d <= rv(Fraction(-1, 64))) for d in dens]
        return out

    def invoke(self, mods, S, K):
        fx = mods.config_creator.fx_parser
        stats = dict(S.stats)
        Poison.touched = 0
        if self.history == "poison":
            fx.exprStack[:] = [Poison() for _ in range(5)]
        elif self.history == "dirty":
            for bad in ("mean +", "foo + 1", "2 ** 3", ")", "", "max max", "3 * (", "abs(mean) + 1", "std / 0.5 - nope"):
                try:
                    fx.eval_fx(bad, stats)
                except Exception:
                    pass
        vals = []
        for t in self.exprs:
            text = render(t)
            try:
                vals.append(fx.eval_fx(text, stats))
            except ZeroDivisionError:
                vals.append("zerodiv")
            if self.history == "dirty":
                try:
                    fx.eval_fx("mean mean", stats)
                except Exception:
                    pass
        return {"vals": vals, "touched": Poison.touched}

    def observe(self, out):
        flags = []
        for v in out["vals"]:
            if isinstance(v, str):
                flags += [rv(1), rv(0)]
            elif isinstance(v, SFloat):
                flags += [rv(0), v.v]
            else:
                flags += [rv(0), rv(Fraction(float(v)))]
        return Outcome(flags=flags, mask=[FALSE] * len(flags), shape=(len(flags),), extra={"touched": out["touched"], "approx": True})

    def holds(self, S, out):
        if out.raised:
            return [(f"eval_fx evaluates a well-formed expression ({type(out.exc).__name__}: {str(out.exc)[:80]})", FALSE)]
        env = {k: v.v for k, v in S.stats.items()}
        obl = [("no stale stack entry of an earlier evaluation is inspected", TRUE if out.extra["touched"] == 0 else FALSE)]
        eps = rv(Fraction(1, 10 ** 9))
        for i, t in enumerate(self.exprs):
            exp, dens = evaluate(t, env)
            if self.canary == "right_assoc" and t[0] == "bin" and t[2][0] == "bin" and PREC[t[1]] == PREC[t[2][1]]:
                inner = t[2]
                exp, dens = evaluate(("bin", inner[1], inner[2], ("bin", t[1], inner[3], t[3])), env)
            nonzero = mk_and(*[mk_not(mk_eq(d, rv(0))) for d in dens])
            zd, v = out.flags[2 * i], out.flags[2 * i + 1]
            diff = v - exp
            close = mk_and(diff <= eps * (1 + mk_if(exp >= 0, exp, -exp)), -diff <= eps * (1 + mk_if(exp >= 0, exp, -exp)))
            obl.append((f"'{render(t)}' evaluates to its ordinary arithmetic value",
                        mk_or(mk_not(nonzero), mk_and(mk_eq(zd, rv(0)), close))))
        return obl


# -- the validator --------------------------------------------------------------------------------------------
ALPHA = "0123456789.eE+-_*/() minaxstdfyq"
CLASSES = {"d": "0123456789", ".": ".", "e": "eE", "+": "+", "-": "-", "_": "_", "i": "iI", "n": "nN", "f": "fF", "a": "aA", "t": "tT",
           "y": "yY", "o": "*/()mxsdq"}
_SHAPES = {}


def float_shapes(k):
    """class-strings of length k that python's float() accepts (computed with the real float on representatives)"""
    if k not in _SHAPES:
        reps = {c: v[0] for c, v in CLASSES.items()}
        reps["d"] = "1"
        acc = []
        for shape in itertools.product(CLASSES, repeat=k):
            s = "".join(reps[c] for c in shape)
            try:
                float(s)
                acc.append(shape)
            except ValueError:
                pass
        _SHAPES[k] = acc
    return _SHAPES[k]


def char_in(c, chars):
    return mk_or(*[mk_eq(c, z3.IntVal(ord(x))) for x in chars])


def float_ok(chars):
    k = len(chars)
    if k == 0:
        return FALSE
    return mk_or(*[mk_and(*[char_in(c, CLASSES[cl]) for c, cl in zip(chars, shape)]) for shape in float_shapes(k)])


def word_is(chars, w):
    if len(chars) != len(w):
        return FALSE
    return mk_and(*[mk_eq(c, z3.IntVal(ord(x))) for c, x in zip(chars, w)])


ALLOWED = ["min", "max", "mean", "std", "+", "-", "*", "/", "(", ")"]


class SymToken(Sym):
    """a token of concrete length with symbolic characters (result of splitting a symbolic string on spaces)"""
    __slots__ = ("chars",)

    def __init__(self, chars):
        self.chars = list(chars)

    def _short(self):
        return f"token{self.chars}"

    __hash__ = object.__hash__

    def __eq__(self, o):
        if isinstance(o, str):
            return SBool(word_is(self.chars, o))
        return NotImplemented

    def __ne__(self, o):
        r = self.__eq__(o)
        return r if r is NotImplemented else ~r

    def __sym_float__(self):
        if bool(SBool(float_ok(self.chars))):
            return SFloat(z3.Bool("tokval!nan"), z3.Real("tokval!v"))
        raise ValueError("could not convert string to float")

    def __format__(self, spec):
        return "<token>"


class SplitStr(Sym):
    """the validator's input: a bounded symbolic string that only supports .split(' ')"""
    __slots__ = ("s",)

    def __init__(self, s):
        self.s = s

    def _short(self):
        return "splitstr"

    def split(self, sep=None, maxsplit=-1):
        if sep != " ":
            from symex.values import Unsupported
            raise Unsupported("split on something other than a single space")
        n = _ex.current().concretize(self.s.length)
        toks, cur = [], []
        for i in range(n):
            if bool(SBool(mk_eq(self.s.chars[i], z3.IntVal(32)))):
                toks.append(SymToken(cur))
                cur = []
            else:
                cur.append(self.s.chars[i])
        toks.append(SymToken(cur))
        return toks

    def __format__(self, spec):
        return "<fx>"


class ValidateFx(Job):
    prop = "C20"
    max_paths = 30000
    max_seconds = 1500

    def __init__(self, L, canary=None):
        self.L, self.canary = L, canary
        self.name = f"_validate_fx strings of length<={L}" + (f" CANARY={canary}" if canary else "")
        if canary:
            self.expect_canary_sat = True
            self.validate_witnesses = False

    def params(self):
        return {"max_length": self.L, "alphabet": ALPHA}

    def declare(self, V):
        S = Struct()
        S.s = V.string("fx", self.L, [(ord(c), ord(c)) for c in ALPHA])
        return S

    def invoke(self, mods, S, K):
        cc = mods.config_creator.config_creator
        obj = cc.QcVariableConfig.__new__(cc.QcVariableConfig)
        arg = SplitStr(S.s) if K.sym else S.s
        cc.QcVariableConfig._validate_fx(obj, arg, "test")
        return "accepted"

    def observe(self, result):
        return Outcome(flags=[z3.IntVal(1)], mask=[FALSE], shape=(1,))

    def expected_accept(self, S):
        key = id(S.s.length)
        if getattr(self, "_acc_cache", (None, None))[0] == key:
            return self._acc_cache[1]
        r = self._expected_accept(S)
        self._acc_cache = (key, r)
        return r

    def _expected_accept(self, S):
        s = S.s
        alts = []
        for n in range(self.L + 1):
            for pattern in itertools.product((False, True), repeat=n):
                cond = [mk_eq(s.length, z3.IntVal(n))]
                toks, cur = [], []
                for i, sp in enumerate(pattern):
                    cond.append(mk_eq(s.chars[i], z3.IntVal(32)) if sp else mk_not(mk_eq(s.chars[i], z3.IntVal(32))))
                    if sp:
                        toks.append(cur)
                        cur = []
                    else:
                        cur.append(s.chars[i])
                toks.append(cur)
                allowed = ALLOWED if self.canary != "drop_std" else [w for w in ALLOWED if w != "std"]
                ok = mk_and(*[mk_or(float_ok(t), *[word_is(t, w) for w in allowed]) for t in toks])
                alts.append(mk_and(*cond, ok))
        return mk_or(*alts)

    def holds(self, S, out):
        acc = self.expected_accept(S)
        if out.raised:
            if not isinstance(out.exc, ValueError):
                return [(f"rejection is by ValueError (got {type(out.exc).__name__})", FALSE)]
            return [("rejected only when some token is not a number, statistic, operator or parenthesis", mk_not(acc))]
        return [("accepted only when every token is a number, statistic, operator or parenthesis", acc)]


TEST_ENTRIES = {"gross_range_test": ("suspect_min", "suspect_max", "fail_min", "fail_max"), "spike_test": ("suspect_threshold", "fail_threshold"),
                "flat_line_test": ("suspect_threshold", "fail_threshold", "tolerance"), "rate_of_change_test": ("threshold",)}


class ValidateConfig(ValidateFx):
    """the same acceptance condition through QcVariableConfig(...) itself: the symbolic specification sits in one entry of one test
    section, every other entry is a valid concrete one (every entry of every section is a limit expression, bbox excepted)"""

    def __init__(self, L, test, key):
        ValidateFx.__init__(self, L)
        self.test, self.key = test, key
        self.name = f"QcVariableConfig: {test}.{key} of length<={L}"

    def params(self):
        return {"max_length": self.L, "alphabet": ALPHA, "test": self.test, "entry": self.key}

    def invoke(self, mods, S, K):
        cc = mods.config_creator.config_creator
        arg = SplitStr(S.s) if K.sym else S.s
        tests = {t: {k: "mean" for k in keys} for t, keys in TEST_ENTRIES.items()}
        tests["location_test"] = {"bbox": [0, 0, 1, 1]}
        tests[self.test][self.key] = arg
        cc.QcVariableConfig({"variable": "temperature", "bbox": [0, 0, 1, 1], "start_time": "2021-01-01", "end_time": "2021-01-02",
                             "tests": tests})
        return "accepted"


# -- create_config on a time-constant climatology ------------------------------------------------------------------------------
def parse_fx(text):
    """expression text (space separated, as QcVariableConfig requires) -> tree, by a tiny precedence parser of the same grammar"""
    toks = text.split(" ")
    pos = [0]

    def atom():
        t = toks[pos[0]]
        pos[0] += 1
        if t == "(":
            r = expr()
            pos[0] += 1
            return r
        if t == "-":
            return ("neg", atom())
        return ("leaf", t)

    def term():
        r = atom()
        while pos[0] < len(toks) and toks[pos[0]] in "*/":
            op = toks[pos[0]]
            pos[0] += 1
            r = ("bin", op, r, atom())
        return r

    def expr():
        r = term()
        while pos[0] < len(toks) and toks[pos[0]] in "+-":
            op = toks[pos[0]]
            pos[0] += 1
            r = ("bin", op, r, term())
        return r
    return expr()


TIME_AXES = {
    "mid-month": ["2021-02-15", "2021-06-15", "2021-10-15"],            # neither day 1 nor day 366 present
    "jan-1": ["2021-01-01", "2021-05-01", "2021-09-01"],                # day 1 present
    "dec-31-leap": ["2020-03-01", "2020-07-01", "2020-12-31"],          # day 366 present
}
DATE_RANGES = {"1 day": ("2021-03-01", "2021-03-02"), "2 days": ("2021-06-30", "2021-07-02"), "new year": ("2021-12-31", "2022-01-02")}
SECTIONS = [("gross_range_test", "suspect_min", "min"), ("gross_range_test", "suspect_max", "max"),
            ("gross_range_test", "fail_min", "mean - 2"), ("gross_range_test", "fail_max", "( min + max ) / 2 + mean"),
            ("spike_test", "suspect_threshold", "std"), ("spike_test", "fail_threshold", "2 * mean"),
            ("rate_of_change_test", "threshold", "max - min")]
WHERE = {("gross_range_test", "suspect_min"): ("suspect_span", 0), ("gross_range_test", "suspect_max"): ("suspect_span", 1),
         ("gross_range_test", "fail_min"): ("fail_span", 0), ("gross_range_test", "fail_max"): ("fail_span", 1)}


class CreateConfig(Job):
    """QcConfigCreator.create_config on a synthetic (time, [depth,] lat, lon) climatology that is constant in time"""
    prop = "C20"
    max_paths = 3000

    def __init__(self, nlat, nlon, axis="mid-month", dates="1 day", three_d=False, canary=None):
        self.nlat, self.nlon, self.axis, self.dates, self.three_d, self.canary = nlat, nlon, axis, dates, three_d, canary
        self.n = len(SECTIONS)
        self.name = (f"create_config grid={nlat}x{nlon}{'x2 depths' if three_d else ''} time_axis={axis} dates={dates}"
                     + (f" CANARY={canary}" if canary else ""))
        if canary:
            self.expect_canary_sat = True
            self.validate_witnesses = False

    def params(self):
        return {"grid": [self.nlat, self.nlon], "time_axis": TIME_AXES[self.axis], "date_range": list(DATE_RANGES[self.dates]),
                "three_d": self.three_d, "expressions": [s[2] for s in SECTIONS]}

    def declare(self, V):
        S = Struct()
        S.lat = [V.float(f"lat{i}", lo=-80, hi=80) for i in range(self.nlat)]
        S.lon = [V.float(f"lon{j}", lo=-170, hi=170) for j in range(self.nlon)]
        # coordinate axes in any order (north-to-south latitude axes are common), without repeated values
        for axis in (S.lat, S.lon):
            for a, b in itertools.combinations(axis, 2):
                V.assume(mk_not(mk_eq(a.v, b.v)))
        S.v = [[V.float(f"v{i}_{j}", nan=True, lo=-64, hi=64) for j in range(self.nlon)] for i in range(self.nlat)]
        S.deep = [[V.float(f"w{i}_{j}", nan=True, lo=-64, hi=64) for j in range(self.nlon)] for i in range(self.nlat)] if self.three_d else None
        S.box = [V.float("xmin", lo=-180, hi=180), V.float("ymin", lo=-90, hi=90), V.float("xmax", lo=-180, hi=180), V.float("ymax", lo=-90, hi=90)]
        V.assume(S.box[0].v <= S.box[2].v, S.box[1].v <= S.box[3].v)
        # the property speaks of the grid cells inside the requested box: there is at least one with data
        V.assume(mk_or(*[c for row in self.inside(S) for c in row]))
        return S

    def inside(self, S):
        b = S.box
        return [[mk_and(b[1].v <= S.lat[i].v, S.lat[i].v <= b[3].v, b[0].v <= S.lon[j].v, S.lon[j].v <= b[2].v, mk_not(S.v[i][j].nan))
                 for j in range(self.nlon)] for i in range(self.nlat)]

    # -- the dataset, symbolic or as a real netCDF file ------------------------------------------------------------------
    def _dataset(self, S, K, tmp):
        import numpy as np
        times = np.array(TIME_AXES[self.axis], dtype="datetime64[ns]")
        T = len(times)
        layers = [S.v] + ([S.deep] if self.three_d else [])
        if K.sym:
            from symex import symnp as snp, symxr
            shape = (T, len(layers), self.nlat, self.nlon) if self.three_d else (T, self.nlat, self.nlon)
            a = snp._obj(shape)
            for t in range(T):
                for d, layer in enumerate(layers):
                    for i in range(self.nlat):
                        for j in range(self.nlon):
                            a[(t, d, i, j) if self.three_d else (t, i, j)] = layer[i][j]
            dims = ("time", "depth", "lat", "lon") if self.three_d else ("time", "lat", "lon")
            coords = {"time": snp.asarray(times), "lat": snp.ndarray.from_list(S.lat, "float64"), "lon": snp.ndarray.from_list(S.lon, "float64")}
            if self.three_d:
                coords["depth"] = snp.asarray(np.array([0.0, 10.0]))
            path = "/symbolic/clim.nc"
            symxr.LOADABLE[path] = symxr.GridDataset({"temp": (dims, snp.ndarray(a, "float64"))}, coords)
            return path
        import os
        import xarray as xr
        data = np.array([[[layer[i][j] for j in range(self.nlon)] for i in range(self.nlat)] for layer in layers], dtype="float64")
        if self.three_d:
            arr = np.broadcast_to(data[None], (T,) + data.shape).copy()
            ds = xr.Dataset({"temp": (("time", "depth", "lat", "lon"), arr)},
                            coords={"time": times, "depth": [0.0, 10.0], "lat": list(S.lat), "lon": list(S.lon)})
        else:
            arr = np.broadcast_to(data[0][None], (T,) + data[0].shape).copy()
            ds = xr.Dataset({"temp": (("time", "lat", "lon"), arr)}, coords={"time": times, "lat": list(S.lat), "lon": list(S.lon)})
        path = os.path.join(tmp, "clim.nc")
        ds.to_netcdf(path, engine="scipy")
        return path

    def invoke(self, mods, S, K):
        import shutil
        import tempfile
        cc = mods.config_creator.config_creator
        tmp = None if K.sym else tempfile.mkdtemp(prefix="c20_")
        try:
            dsdef = {"name": "clim", "file_path": self._dataset(S, K, tmp), "variables": {"temperature": "temp"}}
            if self.three_d:
                dsdef["3d"] = "depth"
            creator = cc.CreatorConfig({"datasets": [dsdef]})
            tests = {}
            for test, key, text in SECTIONS:
                tests.setdefault(test, {})[key] = text
            start, end = DATE_RANGES[self.dates]
            vc = cc.QcVariableConfig({"variable": "temperature", "bbox": list(S.box), "start_time": start, "end_time": end, "tests": tests})
            return cc.QcConfigCreator(creator).create_config(vc)
        finally:
            if tmp:
                shutil.rmtree(tmp, ignore_errors=True)

    def observe(self, out):
        flags = []
        sec = out["temperature"]["qartod"]
        for test, key, text in SECTIONS:
            k, i = WHERE.get((test, key), (key, None))
            v = sec[test][k]
            if i is not None:
                v = v[i]
            if isinstance(v, SFloat):
                if v.root2 is not None:
                    flags += [mk_if(v.nan, rv(1), rv(0)), v.root2]
                else:
                    flags += [mk_if(v.nan, rv(1), rv(0)), v.v * v.v if text == "std" else v.v]
            else:
                v = float(v)
                flags += [rv(1), rv(0)] if v != v else [rv(0), rv(Fraction(v) * Fraction(v) if text == "std" else Fraction(v))]
        return Outcome(flags=flags, mask=[FALSE] * len(flags), shape=(len(flags),), extra={"approx": True})

    def holds(self, S, out):
        if out.raised:
            return [(f"create_config completes ({type(out.exc).__name__}: {str(out.exc)[:90]})", FALSE)]
        cells = [(i, j) for i in range(self.nlat) for j in range(self.nlon)]
        ins = self.inside(S)
        obl = []
        eps = rv(Fraction(1, 10 ** 9))
        per_pattern = [[] for _ in SECTIONS]
        for bits in itertools.product((False, True), repeat=len(cells)):
            P = [c for c, b in zip(cells, bits) if b]
            if not P:
                continue
            cond = mk_and(*[ins[i][j] if b else mk_not(ins[i][j]) for (i, j), b in zip(cells, bits)])
            vals = [S.v[i][j].v for i, j in P]
            mn, mx = vals[0], vals[0]
            for x in vals[1:]:
                mn = mk_if(x < mn, x, mn)
                mx = mk_if(x > mx, x, mx)
            mean = sum(vals[1:], vals[0]) / len(vals)
            var = sum([(x - mean) * (x - mean) for x in vals[1:]], (vals[0] - mean) * (vals[0] - mean)) / len(vals)
            if self.canary == "sample_std" and len(vals) > 1:
                var = var * len(vals) / (len(vals) - 1)
            env = {"min": mn, "max": mx, "mean": mean}
            for k, (test, key, text) in enumerate(SECTIONS):
                exp = var if text == "std" else evaluate(parse_fx(text), env)[0]
                isnan, v = out.flags[2 * k], out.flags[2 * k + 1]
                d = v - exp
                mag = mk_if(exp >= 0, exp, -exp)
                per_pattern[k].append(mk_or(mk_not(cond), mk_and(mk_eq(isnan, rv(0)), d <= eps * (1 + mag), -d <= eps * (1 + mag))))
        for k, (test, key, text) in enumerate(SECTIONS):
            obl.append((f"{test}.{key} = '{text}' on the statistics of the cells inside the requested box", mk_and(*per_pattern[k])))
        return obl


def jobs(tier):
    out = []
    ts = trees(2 if tier == "quick" else 3)
    B = 12
    for hist in ("clean", "poison", "dirty"):
        for i in range(0, len(ts), B):
            out.append(EvalFx(i // B, ts[i:i + B], hist))
    out.append(ValidateFx(4 if tier == "quick" else 5))
    out.append(EvalFx(0, [("bin", "-", ("bin", "-", ("leaf", "mean"), ("leaf", "std")), ("leaf", "max"))], "clean", canary="right_assoc"))
    out.append(ValidateFx(3, canary="drop_std"))
    for t, keys in TEST_ENTRIES.items():
        for k in keys:
            out.append(ValidateConfig(2 if tier == "quick" else 3, t, k))
    out.append(CreateConfig(2, 2))
    out.append(CreateConfig(2, 2, axis="jan-1", dates="2 days"))
    out.append(CreateConfig(2, 2, axis="dec-31-leap", dates="new year"))
    out.append(CreateConfig(1, 2, three_d=True))
    if tier == "thorough":
        out.append(CreateConfig(2, 3))
        out.append(CreateConfig(2, 2, axis="jan-1", dates="new year", three_d=True))
        out.append(CreateConfig(3, 2, axis="mid-month", dates="2 days"))
    out.append(CreateConfig(1, 2, canary="sample_std"))
    return out


FUNCTIONS = ["ioos_qc/config_creator/fx_parser.py:evaluate_stack", "ioos_qc/config_creator/fx_parser.py:eval_fx",
             "ioos_qc/config_creator/config_creator.py:QcVariableConfig._validate_fx",
             "ioos_qc/config_creator/config_creator.py:QcVariableConfig.__init__ (every entry of every test section)",
             "ioos_qc/config_creator/config_creator.py:QcConfigCreator.create_config", "ioos_qc/config_creator/config_creator.py:QcConfigCreator._get_stats",
             "ioos_qc/config_creator/config_creator.py:QcConfigCreator._get_subset",
             "ioos_qc/config_creator/config_creator.py:QcConfigCreator.__get_daily_interp_subset",
             "ioos_qc/config_creator/config_creator.py:QcConfigCreator.__daily_cubic_interp",
             "ioos_qc/config_creator/config_creator.py:QcConfigCreator._create_test_section (span, spike, rate-of-change sections)",
             "ioos_qc/config_creator/config_creator.py:CreatorConfig.__init__", "ioos_qc/config_creator/config_creator.py:QcVariableConfig.__init__"]
OUTSIDE = ["create_config: climatologies that vary in time (the property speaks of time-constant ones; the CubicSpline stub covers only "
           "those), grids larger than the bound, boxes holding no data cell (the box-padding loop is then reached; not part of the statement), "
           "date ranges other than the three enumerated, more than one dataset / variable, flat_line and location sections",
           "create_config: reading the netCDF file and SciPy's compiled CubicSpline are environment stubs in the symbolic run "
           "(xarray.load_dataset -> the symbolic grid; CubicSpline -> 'constant data interpolates to that constant'); every path witness "
           "is replayed through the real xarray + SciPy on a real netCDF file written for it",
           "the pyparsing grammar is executed concretely per expression shape (the token stream is real pyparsing output); only "
           "evaluate_stack runs on symbolic statistics", "expression depth above the bound; '^' and function calls (outside the property's grammar)",
           "validator strings longer than the bound or outside the alphabet '" + ALPHA + "' (unicode digits/whitespace accepted by float())",
           "division by a statistic that is exactly 0 (ZeroDivisionError)"]
ASSUMPTIONS = ["python's float() acceptance is tabulated per token length on class representatives with the real float() at run time",
               "statistics are finite reals in [-64,64]; replay compares in binary64 with relative tolerance 1e-9",
               "create_config: distinct lat/lon coordinate values in any order, xmin<=xmax, ymin<=ymax, at least one cell with data inside the box, "
               "land cells (NaN) constant through time, stub contracts for xarray.load_dataset / DataArray orthogonal indexing / "
               "scipy.interpolate.CubicSpline(bc_type='periodic') as documented in symex/symxr.py and symex/symscipy.py"]


def bounds(tier):
    return {"expression_depth": 2 if tier == "quick" else 3, "expressions": len(trees(2 if tier == "quick" else 3)),
            "histories": ["clean stack", "5 poison entries below", "9 rejected/failed expressions before and between"],
            "validator_string_length": 4 if tier == "quick" else 5,
            "create_config": {"grids": ["2x2", "1x2 with 2 depth levels"] + (["2x3", "3x2", "2x2 with 2 depth levels"] if tier == "thorough" else []),
                              "time_axes": TIME_AXES, "date_ranges": DATE_RANGES, "cell values, coordinates and box": "symbolic",
                              "expressions": [s_[2] for s_ in SECTIONS]}}


LEVEL_TEXT = ("bounded symbolic model checking of the evaluator, the validator and create_config: the real evaluate_stack/eval_fx run on "
              "symbolic statistics over the token stream real pyparsing produces, from a stack with an arbitrary poisoned history, and z3 "
              "proves value = ordinary arithmetic value and that no stale entry is read; _validate_fx runs on every bounded string over a "
              "32-character alphabet and z3 proves accept <=> token whitelist; create_config runs on a symbolic time-constant grid "
              "(symbolic cell values incl. land, coordinates and bounding box) and z3 proves every generated limit equals its "
              "expression on min/max/mean/std of exactly the cells inside the box.")
LEVEL_NOTE = ("expression depth<=2/3; validator strings<=4/5; grammar executed concretely; create_config on grids up to 2x2 (quick) / 3x2 "
              "(thorough) with file I/O and CubicSpline as stated stubs, witnesses replayed through real xarray/SciPy/netCDF")
TECHNIQUE = ("symbolic execution of the real Python source (evaluator and config creator on symbolic reals over a modelled "
             "numpy/xarray/SciPy environment, validator on bounded symbolic strings) + z3; witness replay on the real stack")
