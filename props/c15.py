"""C15 — flags do not depend on how the same series and times are represented."""
from __future__ import annotations

import math

import numpy as np
import z3

from symex import symnp as snp
from symex import sympd
from symex.harness import Job, Struct
from symex.values import FALSE, TRUE, SBool, SFloat, SInt, STime, mk_and, mk_eq, mk_if, mk_not, mk_or
from .rel import Pair
from . import c03, c08, c09, c10, c11, c12, c13, c14

DATA_CARRIERS = ["list_none", "tuple_nan", "float32", "masked", "series", "series_idx", "dask", "int64", "uint16", "int8",
                 "readonly", "bigendian", "strided", "object_none", "masked_int16"]
# the last four are the same float64 content behind another memory layout / flag / element type: in the model they are the
# reference ndarray (byte order, strides and the element type of an object array that holds floats and None are not observable
# there - a model contract), on the real stack every path witness and every probe goes through the real exotic array
LAYOUT_CARRIERS = ("readonly", "bigendian", "strided", "object_none")
INT_CARRIERS = {"int64": None, "uint16": (0, 2000), "int8": (-100, 100)}     # value range assumed for the narrow ones
TIME_CARRIERS = ["us", "s", "ms", "pydt", "ts", "dti", "dti_utc", "ser", "ser_utc", "epoch_int", "epoch_float", "epoch_list",
                 "epoch_int32", "epoch_uint32"]      # the usual on-disk types of epoch-second time variables (whole seconds before 2038)


class SymDask:
    """stand-in for a dask array: exposes dtype/shape and converts through the array protocol"""

    def __init__(self, arr):
        self._arr = arr
        self.dtype, self.shape, self.ndim, self.size = arr.dtype, arr.shape, arr.ndim, arr.size

    def __sym_array__(self):
        return self._arr

    def __len__(self):
        return len(self._arr)

    def compute(self):
        return self._arr.copy()


class CarrierKit:
    def __init__(self, K, data=None, time=None):
        self.K, self.data, self.time = K, data, time
        self.sym = K.sym

    def __getattr__(self, name):
        return getattr(self.K, name)

    # -- data ---------------------------------------------------------------------------------
    def farray(self, vals, owner="caller"):
        K, c = self.K, self.data
        if c is None or c == "ndarray":
            return K.farray(vals)
        if c == "list_none":
            return K.flist(vals)
        if c == "tuple_nan":
            return tuple(vals)
        if c == "readonly":
            return K.readonly(K.farray(vals))
        if K.sym and c in ("bigendian", "strided", "object_none", "fortran2d"):
            return K.farray(vals)
        if K.sym:
            base = snp.ndarray.from_list(vals, "float64", owner="caller")
            if c == "float32":
                return snp.ndarray.from_list(vals, "float32", owner="caller")
            if c in INT_CARRIERS:
                return snp.ndarray.from_list([SInt(z3.ToInt(v.v)) for v in vals], c, owner="caller")
            if c in ("masked", "masked_int16"):
                # (masked_int16: whole numbers in an int16 masked array - in the model the same masked float array, a contract)
                data = [SFloat(FALSE, mk_if(v.nan, z3.RealVal(7), v.v)) for v in vals]
                return K.marray(data, [SBool(v.nan) for v in vals])
            if c == "series":
                return sympd.Series(base)
            if c == "series_idx":
                return sympd.Series(base, index=sympd.Index(snp.asarray(np.arange(5, 5 + len(vals)))))
            if c == "dask":
                return SymDask(base)
        else:
            import pandas as pd
            if c == "bigendian":
                return np.array(vals, dtype=">f8")
            if c == "strided":
                wide = np.full(2 * len(vals) + 1, 123456.0)
                wide[1::2] = vals
                return wide[1::2]
            if c == "fortran2d":
                return np.asfortranarray(np.array(vals, dtype=float).reshape(2, -1))
            if c == "object_none":
                return np.array([None if v != v else v for v in vals], dtype=object)
            if c == "float32":
                return np.array(vals, dtype=np.float32)
            if c in INT_CARRIERS:
                return np.array(vals, dtype=c)
            if c == "masked":
                return np.ma.MaskedArray(np.array([7.0 if v != v else v for v in vals], dtype=float), mask=[v != v for v in vals])
            if c == "masked_int16":
                return np.ma.MaskedArray(np.array([7 if v != v else int(v) for v in vals], dtype="int16"), mask=[v != v for v in vals])
            if c == "series":
                return pd.Series(np.array(vals, dtype=float))
            if c == "series_idx":
                return pd.Series(np.array(vals, dtype=float), index=np.arange(5, 5 + len(vals)))
            if c == "dask":
                import dask.array as da
                return da.from_array(np.array(vals, dtype=float), chunks=2)
        raise ValueError(c)

    # -- time ---------------------------------------------------------------------------------
    def tarray(self, vals, unit="ns", owner="caller"):
        K, c = self.K, self.time
        if c is None or c == "ns":
            return K.tarray(vals, unit)
        if c in ("us", "s", "ms", "m", "h"):
            return K.tarray(vals, c)
        if c in ("epoch_int32", "epoch_uint32"):
            e = K.epoch_array(vals)
            dt = c[len("epoch_"):]
            return snp.ndarray.from_list(list(e.a), dt, owner="caller") if K.sym else e.astype(dt)
        if c in ("epoch_int", "epoch_float", "epoch_list"):
            e = K.epoch_array(vals)
            if c == "epoch_float":
                return e.astype("float64") if K.sym else e.astype(float)
            if c == "epoch_list":
                return list(e.a) if K.sym else [int(x) for x in e]
            return e
        if K.sym:
            arr = snp.ndarray.from_list(vals, "datetime64[ns]", owner="caller")
            if c in ("pydt", "ts"):
                return list(vals)
            if c == "dti":
                return sympd.DatetimeIndex(arr)
            if c == "dti_utc":
                return sympd.DatetimeIndex(arr, tz="UTC")
            if c == "ser":
                return sympd.Series(arr)
            if c == "ser_utc":
                return sympd.Series(arr, tz="UTC")
        else:
            import pandas as pd
            arr = np.array(vals, dtype="datetime64[ns]")
            if c == "pydt":
                return [pd.Timestamp(v).to_pydatetime() for v in arr]
            if c == "ts":
                return [pd.Timestamp(v) for v in arr]
            if c == "dti":
                return pd.DatetimeIndex(arr)
            if c == "dti_utc":
                return pd.DatetimeIndex(arr, tz="UTC")
            if c == "ser":
                return pd.Series(arr)
            if c == "ser_utc":
                return pd.Series(arr).dt.tz_localize("UTC")
        raise ValueError(c)


DATA_FIELDS = ("x", "y", "rho", "z", "lon", "lat", "p")     # Struct fields of the base jobs that travel through K.farray


class Carrier(Pair):
    prop = "C15"

    def __init__(self, base, data=None, time=None, integer=False):
        Pair.__init__(self, base)
        self.data, self.time, self.integer = data, time, integer
        self.name = f"carrier[data={data or 'ndarray'}, time={time or 'datetime64[ns]'}]: {base.name}"
        if data in ("uint16", "int8"):
            self.scatter_replay = 4
        if data == "float32" and not isinstance(base, c03.ValidRange):
            # (valid_range_test compares in the data's own dtype by contract - its `dtype` parameter and "span of equal format" -
            #  so a binary64 span that binary32 cannot hold is outside the claim, like a fractional span for integer data)
            # the solver's boundary models are also run, scaled off grid G, through the real code: a binary32 array holds numbers
            # that are exact in binary64 too, so both representations are the same logical series for ANY float32 content -
            # whereas thresholds/spans stay Python floats that binary32 cannot hold.  Code that keeps computing in the narrow
            # dtype is exact on G (and invisible there) but not off it.
            self.offgrid = "narrow-dtype"
            self.offgrid_oracle = base
            self.offgrid_scales = ((1, 10), (1, 3))     # shrinking keeps every declared input range

    def offgrid_prepare(self, Sc):
        """the logical series of a float32 carrier: every data value rounded to binary32 (for both representations)"""
        def r32(v):
            if isinstance(v, float) and v == v:
                return float(np.float32(v))
            if isinstance(v, (list, tuple)):
                return type(v)(r32(x) for x in v)
            return v
        out = Struct(**vars(Sc))
        for name in DATA_FIELDS:
            if getattr(out, name, None) is not None:
                setattr(out, name, r32(getattr(out, name)))
        return out

    def params(self):
        p = dict(self.a.params())
        p.update({"data_carrier": self.data or "ndarray", "time_carrier": self.time or "datetime64[ns]"})
        return p

    def declare(self, V):
        S = self.a.declare(V)
        if hasattr(self.a, "valid_params"):
            V.assume(self.a.valid_params(S))
        if self.data in INT_CARRIERS:
            rng = INT_CARRIERS[self.data]
            for name in DATA_FIELDS:
                for v in getattr(S, name, []) or []:
                    if isinstance(v, SFloat):
                        V.assume(mk_not(v.nan), z3.IsInt(v.v))
                        if rng is not None:
                            V.assume(v.v >= rng[0], v.v <= rng[1])
        if self.data == "masked_int16":
            for name in DATA_FIELDS:
                for v in getattr(S, name, []) or []:
                    if isinstance(v, SFloat):
                        V.assume(mk_or(v.nan, mk_and(z3.IsInt(v.v), v.v >= -1000, v.v <= 1000)))
        if self.integer:
            # whole numbers only: without a dtype valid_range_test guesses "epoch seconds" for a plain list, and the time
            # model is whole-second
            for name in ("x", "span"):
                for v in getattr(S, name, []) or []:
                    if isinstance(v, SFloat):
                        V.assume(mk_or(v.nan, z3.IsInt(v.v)))
        if self.time in ("epoch_int32", "epoch_uint32"):
            for t in getattr(S, "t", []) or []:
                V.assume(t.s >= 0, t.s < 2 ** 31)
        if self.time in ("m", "h"):
            # a datetime64[m] / [h] array holds whole minutes / hours
            k = {"m": 60, "h": 3600}[self.time]
            for t in getattr(S, "t", []) or []:
                V.assume(t.s % k == 0)
        if self.time in ("us", "ms"):
            # an array of that unit holds exactly the multiples of its resolution
            k = {"us": 10 ** 6, "ms": 10 ** 3}[self.time]
            for t in getattr(S, "t", []) or []:
                if getattr(t, "f", None) is not None:
                    V.assume(z3.IsInt(t.f * k))
        if self.data == "float32":
            for name in DATA_FIELDS:
                for v in getattr(S, name, []) or []:
                    if isinstance(v, SFloat):
                        V.assume(v.v >= -1024, v.v <= 1024)
        return S

    def invoke(self, mods, S, K):
        ref = self.a.invoke(mods, S, K)
        alt = self.a.invoke(mods, S, CarrierKit(K, self.data, self.time))
        return (ref, alt)

    def holds(self, S, out):
        if out.raised:
            return [(f"accepts the carrier without raising (raised {type(out.exc).__name__}: {str(out.exc)[:80]})", FALSE)]
        o2 = out.extra["other"]
        n = len(out.flags)
        if len(o2.flags) != n:
            return [("same number of flags for both representations", FALSE)]
        obl = [("alternative representation: nothing hidden behind a mask", mk_not(mk_or(*o2.mask)) if o2.mask else TRUE)]
        for i in range(n):
            obl.append((f"[{i}] same flag for both representations", mk_eq(out.flags[i], o2.flags[i])))
        return obl


def jobs(tier):
    n = 3 if tier == "quick" else 4
    M = c08.MemberShape
    out = []
    data_bases = [
        (c03.GrossRange(n, True), True), (c09.Spike(n, "average", True, True), True), (c09.Spike(n, "differential", True, True), True),
        (c10.RateOfChange(n), True), (c11.FlatLine(n, 60), True), (c12.Attenuated(n, "range", False), True),
        (c12.Attenuated(2, "std", True), True), (c13.Density(n, True, True), True), (c14.Location(n, "given", True), True),
        (c10.Speed(n), True), (c08.Climatology(2, [M("month", True, True)], prop="C15"), True),
        (c03.ValidRange(n, "float64", True, False), True), (c13.Pressure(n), False),
    ]
    for base, missing_ok in data_bases:
        for c in DATA_CARRIERS:
            if not missing_ok and c in ("masked", "masked_int16"):
                continue
            if isinstance(base, c03.ValidRange) and (c in INT_CARRIERS or c in ("object_none", "masked_int16")):
                # valid_range_test compares in the data's own dtype: integer data needs an integer span (documented), and an
                # object array has no numeric dtype to compare in (it raises TypeError on the unchanged tree; callers pass dtype=)
                continue
            out.append(Carrier(base, data=c, integer=isinstance(base, c03.ValidRange) and c in ("list_none", "tuple_nan")))
    # the same series as a column-major 2 x 2 array (row-major reading = the logical order): element-wise tests only
    for base in (c03.GrossRange(4, True), c03.ValidRange(4, "float64", True, False)):
        out.append(Carrier(base, data="fortran2d"))
    time_bases = [c10.RateOfChange(n), c11.FlatLine(n, 60), c12.Attenuated(n, "range", True), c10.Speed(2),
                  c08.Climatology(2, [M(None, True, False)], prop="C15"), c08.Climatology(2, [M("dayofyear", False, False)], prop="C15"),
                  c03.ValidRange(2, "datetime64", True, False)]
    for base in time_bases:
        for c in TIME_CARRIERS:
            if isinstance(base, c03.ValidRange) and (c.startswith("epoch") or c.endswith("_utc")):
                # time-valued valid_range compares like with like: numbers are a different logical series, and tz-aware
                # data would need a tz-aware span (tz-aware carriers are listed for time *axes*, not for data)
                continue
            out.append(Carrier(base, time=c))
    # sub-second timestamps through the carriers that can hold them
    for base in (c10.RateOfChange(3, frac=True), c08.Climatology(2, [M(None, True, False)], prop="C15", frac=True)):
        for c in ("us", "ms", "pydt", "ts", "dti", "ser", "ser_utc", "epoch_float"):
            out.append(Carrier(base, time=c))
    # coarse datetime64 units on an irregular axis with an even number of steps (the median step is then an average of two)
    for unit in ("m", "h"):
        k = {"m": 60, "h": 3600}[unit]
        out.append(Carrier(c12.Attenuated(3, "range", True, "period", steps=(k, 2 * k)), time=unit))
        out.append(Carrier(c10.RateOfChange(3), time=unit))
    # spans as lists instead of tuples
    out.append(Carrier(c03.GrossRange(n, True, "list"), data="ndarray"))
    if tier == "thorough":
        out.append(Carrier(c09.Spike(5, "average", True, True), data="masked"))
        out.append(Carrier(c10.RateOfChange(5), data="series", time="ser_utc"))
        out.append(Carrier(c13.Density(4, True, True), data="list_none"))
    return out


FUNCTIONS = ["ioos_qc/qartod.py:* (all eight tests)", "ioos_qc/argo.py:speed_test", "ioos_qc/argo.py:pressure_increasing_test",
             "ioos_qc/axds.py:valid_range_test", "ioos_qc/utils.py:mapdates"]
OUTSIDE = ["valid_range_test: float32 data with a span that is not exact in binary32 (same contract: comparisons are made in the data's "
           "dtype)", "valid_range_test: integer data with a fractional / None bound (span must be 'of equal format' to the data, per its docstring); "
           "tz-aware datetimes as *data*", "the library conversions themselves (np.array(list), Series.to_numpy(), datetime64 unit casts, tz stripping, dask "
           "compute) are environment-model contracts; every path witness is replayed through the real carriers (incl. real dask, "
           "float32, pandas) which is where a wrong contract would surface",
           "float32: values restricted to |x|<=1024 on the 2^-10 grid (exact in binary32)", "int64 / uint16 / int8: integer values (0..2000 and -100..100 for the narrow ones), nothing missing",
           "layout carriers (read-only, big-endian, strided view, object array with None, column-major 2x2, int16 masked, int32/uint32 "
           "epoch seconds before 2038): byte order, strides, element type and memory order are not observable in the model - these "
           "carriers are decided only through the real-stack replay of every path witness and the real-code probes, not by the solver; "
           "valid_range_test on object / masked-integer data (no numeric dtype to compare in) is outside",
           "time zones other than UTC", "series longer than 3"]
ASSUMPTIONS = ["carrier models expose exactly the attributes ioos_qc inspects (dtype, dtype.tz, .dt, .to_numpy, .values, .shape, "
               "array protocol, mask)", "numpy/pandas environment model validated per path against the real stack"]


def bounds(tier):
    return {"series_length": "3 (quick) / 4 (thorough)", "data_carriers": ["ndarray float64 (reference)"] + DATA_CARRIERS,
            "time_carriers": ["datetime64[ns] (reference)"] + TIME_CARRIERS, "pairs": "each carrier against the reference"}


LEVEL_TEXT = ("bounded symbolic model checking of ioos_qc's own input dispatch: each test is executed symbolically on the reference "
              "representation and on an alternative carrier of the same logical series (all values / missing placements symbolic) "
              "and z3 proves the two flag vectors equal; the carriers' library conversions are stubs with stated contracts, "
              "replayed through the real carriers on every path witness")
LEVEL_NOTE = "n=3/4; conversions inside numpy/pandas/dask are modelled, not encoded; witnesses run through the real carriers"
TECHNIQUE = "relational symbolic execution of the real Python source over modelled numpy/pandas carriers + z3; witness replay through real carriers"
