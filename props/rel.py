"""Helpers for relational checks (two symbolic executions of the same real function compared)."""
from __future__ import annotations

import copy

from symex.harness import Job, Outcome, Struct, observe
from symex.values import FALSE, TRUE, mk_and, mk_eq, mk_not, mk_or


class PrefixVars:
    """Vars facade that prefixes every declared name (a second, independent copy of a job's inputs)."""

    def __init__(self, V, prefix):
        self._V, self._p = V, prefix

    def assume(self, *c):
        self._V.assume(*c)

    def float(self, name, **kw):
        return self._V.float(self._p + name, **kw)

    def floats(self, prefix, n, nan=False, **kw):
        return [self.float(f"{prefix}{i}", nan=nan, **kw) for i in range(n)]

    def int(self, name, lo=None, hi=None):
        return self._V.int(self._p + name, lo, hi)

    def bool(self, name):
        return self._V.bool(self._p + name)

    def time(self, name, nat=False, frac=False):
        return self._V.time(self._p + name, nat=nat, frac=frac)

    def string(self, name, maxlen, alphabet=None):
        return self._V.string(self._p + name, maxlen, alphabet)

    @property
    def grid(self):
        return self._V.grid

    def times_increasing(self, prefix, n, **kw):
        return self._V.times_increasing(self._p + prefix, n, **kw)


def clone(S, **changes):
    S2 = Struct(**vars(S))
    for k, v in changes.items():
        setattr(S2, k, v)
    return S2


class Pair(Job):
    """Runs base_a on S.a and base_b on S.b; subclasses define declare() and relate()."""

    def __init__(self, base_a, base_b=None):
        self.a, self.b = base_a, base_b or base_a
        self.max_paths = 4 * getattr(base_a, "max_paths", 4000)
        self.max_seconds = getattr(base_a, "max_seconds", 900)

    def params(self):
        return self.a.params()

    def invoke(self, mods, S, K):
        return (self.a.invoke(mods, S.a, K), self.b.invoke(mods, S.b, K))

    def observe(self, result):
        oa = self.a.observe(result[0]) if hasattr(self.a, "observe") else observe(result[0])
        ob = self.b.observe(result[1]) if hasattr(self.b, "observe") else observe(result[1])
        oa.extra["other"] = ob
        return oa
