"""C04 — aggregation reports, per point, the worst flag any test produced."""
from __future__ import annotations

import itertools
import types

import z3

from symex.harness import Job, Outcome, Struct, observe
from symex.values import FALSE, TRUE, mk_and, mk_eq, mk_if, mk_not, mk_or, rv
from .common import FAIL, GOOD, MISSING, SUSPECT, UNKNOWN, iv, shape_obligations

ORDER = [MISSING, UNKNOWN, GOOD, SUSPECT, FAIL]


def expected_column(vals, masks, canary=None):
    """worst flag (in ORDER) among unmasked entries equal to a flag; MISSING if none"""
    order = ORDER if canary != "good_over_suspect" else [MISSING, UNKNOWN, SUSPECT, GOOD, FAIL]
    res = iv(MISSING)
    for p in order:
        hit = mk_or(*[mk_and(mk_not(m), mk_eq(v, rv(p))) for v, m in zip(vals, masks)])
        res = mk_if(hit, iv(p), res)
    return res


class Compare(Job):
    prop = "C04"

    def __init__(self, k, n, masked, via="qartod_compare", dtype="float64", canary=None, nan=False):
        self.k, self.n, self.masked, self.via, self.dtype, self.canary = k, n, masked, via, dtype, canary
        self.nan = nan       # float vectors may hold NaN (a value that is not a flag)
        self.name = f"{via} k={k} n={n} carrier={'masked' if masked else 'plain'} dtype={dtype}{' with NaN entries' if nan else ''}" + (
            f" CANARY={canary}" if canary else "")
        if canary:
            self.expect_canary_sat = True
            self.validate_witnesses = False

    def params(self):
        return {"k": self.k, "n": self.n, "masked": self.masked, "via": self.via, "dtype": self.dtype}

    def declare(self, V):
        S = Struct()
        if self.dtype == "float64":
            S.v = [[V.float(f"v{j}_{i}", lo=-16, hi=16, nan=self.nan) for i in range(self.n)] for j in range(self.k)]
        else:
            S.v = [[V.int(f"v{j}_{i}", lo=0, hi=255) for i in range(self.n)] for j in range(self.k)]
        S.m = [[V.bool(f"m{j}_{i}") for i in range(self.n)] for j in range(self.k)] if self.masked else None
        return S

    def _vectors(self, S, K):
        vs = []
        for j in range(self.k):
            if self.dtype == "float64":
                vs.append(K.marray(S.v[j], S.m[j]) if self.masked else K.farray(S.v[j]))
            else:
                vs.append(K.iarray(S.v[j], "uint8"))
        return vs

    def invoke(self, mods, S, K):
        vs = self._vectors(S, K)
        if self.via == "aggregate":
            return mods.qartod.aggregate([types.SimpleNamespace(results=v) for v in vs])
        return mods.qartod.qartod_compare(vs)

    def _val(self, x):
        return x.v if self.dtype == "float64" else z3.ToReal(x.v)

    def holds(self, S, out):
        if out.raised:
            return [("aggregation does not raise on equal-length vectors", FALSE)]
        obl = shape_obligations(out, self.n)
        for i in range(self.n):
            vals = [self._val(S.v[j][i]) for j in range(self.k)]
            masks = [S.m[j][i].b if self.masked else FALSE for j in range(self.k)]
            if self.nan:
                # NaN is not a flag: it contributes nothing, like a masked entry
                masks = [mk_or(m, S.v[j][i].nan) for j, m in enumerate(masks)]
            obl.append((f"roll-up[{i}] is the worst evaluated flag of column {i}",
                        mk_eq(out.flags[i], expected_column(vals, masks, self.canary))))
        return obl


class Laws(Job):
    """order / multiplicity / grouping independence decided between symbolic executions of the real code."""
    prop = "C04"

    def __init__(self, k, n, law):
        self.k, self.n, self.law = k, n, law
        self.name = f"qartod_compare law={law} k={k} n={n}"

    def params(self):
        return {"k": self.k, "n": self.n, "law": self.law}

    def declare(self, V):
        S = Struct()
        S.v = [[V.float(f"v{j}_{i}", lo=-16, hi=16) for i in range(self.n)] for j in range(self.k)]
        S.m = [[V.bool(f"m{j}_{i}") for i in range(self.n)] for j in range(self.k)]
        return S

    def invoke(self, mods, S, K):
        f = mods.qartod.qartod_compare
        mk = lambda: [K.marray(S.v[j], S.m[j]) for j in range(self.k)]
        base = f(mk())
        outs = [base]
        if self.law == "permutation":
            for perm in itertools.permutations(range(self.k)):
                vs = mk()
                outs.append(f([vs[j] for j in perm]))
        elif self.law == "duplication":
            vs = mk()
            outs.append(f(vs + mk()))
            outs.append(f([vs[0]] + mk()))
        elif self.law == "idempotence":
            outs.append(f([f(mk())]))
            outs.append(f([f(mk()), f(mk())]))
        elif self.law == "grouping":
            for cut in range(1, self.k):
                vs = mk()
                outs.append(f([f(vs[:cut]), f(vs[cut:])]))
        return outs

    def observe(self, result):
        obs = [observe(r) for r in result]
        flags, mask = [], []
        for o in obs:
            flags += o.flags
            mask += o.mask
        return Outcome(flags=flags, mask=mask, shape=(len(flags),), extra={"runs": len(obs)})

    def holds(self, S, out):
        if out.raised:
            return [("does not raise", FALSE)]
        n = self.n
        runs = len(out.flags) // n if n else 0
        obl = [("no result is masked", mk_not(mk_or(*out.mask)) if out.mask else TRUE)]
        for r in range(1, runs):
            for i in range(n):
                obl.append((f"{self.law}: variant {r} agrees with the direct roll-up at [{i}]",
                            mk_eq(out.flags[i], out.flags[r * n + i])))
        return obl


def jobs(tier):
    K, N = (3, 3) if tier == "quick" else (6, 5)
    out = []
    for k in range(1, K + 1):
        for n in range(0, N + 1):
            if tier == "quick" and k * n > 6:
                continue
            for masked in (False, True):
                out.append(Compare(k, n, masked))
    out.append(Compare(2, 2, False, nan=True))
    out.append(Compare(1, 3, False, nan=True))
    out.append(Compare(2, 2, True, nan=True))
    out.append(Compare(2, 2, False, dtype="uint8"))
    out.append(Compare(3, 1, False, dtype="uint8"))
    out.append(Compare(2, 2, True, via="aggregate"))
    out.append(Compare(1, 3, False, via="aggregate"))
    for law, k in (("permutation", 3), ("duplication", 2), ("idempotence", 2), ("grouping", 3)):
        out.append(Laws(k, 2, law))
        if tier == "thorough":
            out.append(Laws(k + (0 if law == "permutation" else 1), 3, law))
    out.append(Compare(2, 2, True, canary="good_over_suspect"))
    return out


FUNCTIONS = ["ioos_qc/qartod.py:qartod_compare", "ioos_qc/qartod.py:aggregate"]
OUTSIDE = ["more vectors / longer vectors than the bound", "vectors of unequal length (assertion)", "k=0",
           "PandasStore.compute_aggregate is covered by C19"]
ASSUMPTIONS = ["numpy.ma environment model validated per path against numpy 1.26 (np.where on a masked comparison uses the raw "
               "data buffer; masked == p is False under the mask)"]


def bounds(tier):
    return {"vectors": "1..3" if tier == "quick" else "1..6", "length": "0..3" if tier == "quick" else "0..5",
            "entries": "free real in [-16,16] (flags, non-flag values, flag-valued floats) with a free mask bit; uint8 0..255"}


LEVEL_TEXT = ("bounded symbolic model checking of the real qartod_compare/aggregate source: every entry is a free number with a "
              "free mask bit; z3 proves the roll-up equals the per-column worst flag, and the permutation / duplication / "
              "idempotence / grouping laws are decided between symbolic executions")
LEVEL_NOTE = "bounds: k<=3/6 vectors, n<=3/5; uninitialised np.ma.empty cells are havoc symbols (result must not depend on them)"
TECHNIQUE = "symbolic execution of the real Python source over a modelled numpy + z3 (SMT, QF_LRA)"
