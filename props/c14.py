"""C14 — location test: bounding-box membership and hop distance."""
from __future__ import annotations

from symex.harness import Job, Struct
from symex.symgeo import GEOD
from symex.values import FALSE, TRUE, mk_and, mk_eq, mk_if, mk_not, mk_or, rv
from .common import (FAIL, GOOD, MISSING, SUSPECT, cases, flag_is, iv, shape_obligations)

LAT_MENU = [-90, -45.5, -10, 0, 0.0009765625, 10, 45.5, 89, 90]
LON_MENU = [-180, -179.5, -90, -10, 0, 0.0009765625, 10, 90, 170, 170.0009765625, 179.5, 180]


class Location(Job):
    prop = "C14"

    def __init__(self, n, bbox, has_range, canary=None):
        self.n, self.bbox, self.has_range, self.canary = n, bbox, has_range, canary
        if not has_range:
            self.offgrid = "scale"      # box membership only compares: exact on every float
        self.name = f"location n={n} bbox={bbox} range_max={'y' if has_range else 'n'}" + (
            f" CANARY={canary}" if canary else "")
        if canary:
            self.expect_canary_sat = True
            self.validate_witnesses = False

    def params(self):
        return {"n": self.n, "bbox": self.bbox, "range_max": self.has_range}

    def declare(self, V):
        S = Struct()
        S.lon = [V.float(f"lon{i}", nan=True, lo=-180, hi=180, menu=LON_MENU) for i in range(self.n)]
        S.lat = [V.float(f"lat{i}", nan=True, lo=-90, hi=90, menu=LAT_MENU) for i in range(self.n)]
        if self.bbox == "given":
            S.box = [V.float("minx", lo=-180, hi=180), V.float("miny", lo=-90, hi=90),
                     V.float("maxx", lo=-180, hi=180), V.float("maxy", lo=-90, hi=90)]
        else:
            S.box = None
        S.rmax = V.float("rmax", lo=0, hi=2 ** 25) if self.has_range else None
        return S

    def invoke(self, mods, S, K):
        kw = {}
        if S.box is not None:
            kw["bbox"] = K.ftuple(S.box)
        if S.rmax is not None:
            kw["range_max"] = S.rmax
        return mods.qartod.location_test(K.farray(S.lon), K.farray(S.lat), **kw)

    def holds(self, S, out):
        if out.raised:
            return [("location_test does not raise for a valid call", FALSE)]
        n = self.n
        obl = shape_obligations(out, n)
        if S.box is not None:
            minx, miny, maxx, maxy = [b.v for b in S.box]
        else:
            minx, miny, maxx, maxy = rv(-180), rv(-90), rv(180), rv(90)
        for i in range(n):
            lo, la = S.lon[i], S.lat[i]
            both = mk_and(lo.nan, la.nan)
            one = mk_and(mk_or(lo.nan, la.nan), mk_not(both))
            outside = mk_or(mk_and(mk_not(lo.nan), mk_or(lo.v < minx, (lo.v >= maxx) if self.canary == "edge" else (lo.v > maxx))),
                            mk_and(mk_not(la.nan), mk_or(la.v < miny, la.v > maxy)))
            pairs = [(both, MISSING), (mk_or(one, outside), FAIL)]
            if S.rmax is not None and i > 0:
                plo, pla = S.lon[i - 1], S.lat[i - 1]
                full = mk_and(mk_not(plo.nan), mk_not(pla.nan), mk_not(lo.nan), mk_not(la.nan))
                d = GEOD(pla.v, plo.v, la.v, lo.v)
                pairs.append((mk_and(full, d > S.rmax.v), SUSPECT))
            obl.append((f"flag[{i}] follows box membership / hop distance", mk_eq(out.flags[i], cases(*pairs, default=GOOD))))
        return obl


class LocationRejects(Job):
    prop = "C14"

    def __init__(self, kind):
        self.kind = kind
        self.name = f"location rejects {kind}"

    def params(self):
        return {"kind": self.kind}

    def declare(self, V):
        S = Struct()
        S.lon = [V.float(f"lon{i}", nan=True, lo=-180, hi=180) for i in range(6)]
        S.lat = [V.float(f"lat{i}", nan=True, lo=-90, hi=90) for i in range(6)]
        S.box = [V.float(f"b{i}", lo=-180, hi=180) for i in range(5)]
        return S

    def invoke(self, mods, S, K):
        f = mods.qartod.location_test
        if self.kind == "shape":
            return f(K.farray(S.lon[:3]), K.farray(S.lat[:2]))
        # same number of positions, different shapes
        if self.kind == "shape_2x3_3x2":
            return f(K.farray(S.lon).reshape(2, 3), K.farray(S.lat).reshape(3, 2))
        if self.kind == "shape_2x3_6":
            return f(K.farray(S.lon).reshape(2, 3), K.farray(S.lat))
        if self.kind == "shape_4_2x2":
            return f(K.farray(S.lon[:4]), K.farray(S.lat[:4]).reshape(2, 2))
        if self.kind == "shape_1x3_3":
            return f(K.farray(S.lon[:3]).reshape(1, 3), K.farray(S.lat[:3]))
        if self.kind == "shape0":
            return f(K.farray(S.lon[:0]), K.farray(S.lat[:1]))
        if self.kind == "bbox3":
            return f(K.farray(S.lon[:3]), K.farray(S.lat[:3]), bbox=K.ftuple(S.box[:3]))
        if self.kind == "bbox5":
            return f(K.farray(S.lon[:3]), K.farray(S.lat[:3]), bbox=K.ftuple(S.box))
        if self.kind == "bbox_scalar":
            return f(K.farray(S.lon[:3]), K.farray(S.lat[:3]), bbox=S.box[0])
        raise ValueError(self.kind)

    def holds(self, S, out):
        return [("malformed arguments are rejected", TRUE if out.raised and isinstance(out.exc, (ValueError, TypeError)) else FALSE)]


def jobs(tier):
    N = 4 if tier == "quick" else 10
    out = []
    for n in range(0, N + 1):
        for bbox in ("default", "given"):
            for has_range in (False, True):
                if n > 3 and bbox == "default":
                    continue
                out.append(Location(n, bbox, has_range))
    for k in ("shape", "shape0", "shape_2x3_3x2", "shape_2x3_6", "shape_4_2x2", "shape_1x3_3", "bbox3", "bbox5", "bbox_scalar"):
        out.append(LocationRejects(k))
    out.append(Location(2, "given", True, canary="edge"))
    return out


FUNCTIONS = ["ioos_qc/qartod.py:location_test", "ioos_qc/utils.py:great_circle_distance", "ioos_qc/utils.py:isfixedlength"]
OUTSIDE = ["tracks longer than the bound", "coordinates off grid G", "the numerical value of the WGS-84 geodesic (geographiclib is "
           "an uninterpreted function with contract geod>=0, geod(p,p)=0, symmetric; counterexamples are made concrete against "
           "geographiclib on a menu of positions)", "multi-dimensional inputs"]
ASSUMPTIONS = ["numpy.ma environment model validated per path against numpy 1.26",
               "geographiclib.Geodesic.WGS84.Inverse modelled as an uninterpreted function of its four arguments"]


def bounds(tier):
    return {"track_length": "0..4" if tier == "quick" else "0..10", "bbox": "default and 4 symbolic numbers", "range_max": "absent / symbolic >= 0",
            "missing": "independent NaN flags on lon and lat"}


LEVEL_TEXT = ("bounded symbolic model checking of the real location_test + great_circle_distance source; box membership and "
              "missing-coordinate rules are decided for all inputs, the hop rule relative to an uninterpreted geodesic (so wrong "
              "rows, swapped arguments or a wrong comparison change the term and are refuted)")
LEVEL_NOTE = "bounds: n<=4/10, grid G; geodesic uninterpreted (CEGAR replay against geographiclib); numpy.ma model validated by witnesses"
TECHNIQUE = "symbolic execution of the real Python source over a modelled numpy + z3 (SMT, QF_UFLRA) with CEGAR replay"
