"""C13 — density inversion (both points of an inverted pair, either cast direction) and pressure increasing."""
from __future__ import annotations

import z3

from symex.harness import Job, Outcome, Struct, observe
from symex.values import FALSE, TRUE, mk_and, mk_eq, mk_if, mk_not, mk_or, rv
from .common import (FAIL, GOOD, MISSING, SUSPECT, UNKNOWN, cases, flag_in, flag_is, iv, shape_obligations, zabs, zmax)


def _sev(flag_term):
    """severity order GOOD < SUSPECT < FAIL as an int term (flags 1,3,4 are already ordered)"""
    return flag_term


class Density(Job):
    prop = "C13"

    def __init__(self, n, has_s, has_f, canary=None):
        self.n, self.has_s, self.has_f, self.canary = n, has_s, has_f, canary
        self.name = f"density_inversion n={n} suspect={'y' if has_s else 'n'} fail={'y' if has_f else 'n'}" + (
            f" CANARY={canary}" if canary else "")
        if canary:
            self.expect_canary_sat = True
            self.validate_witnesses = False

    def params(self):
        return {"n": self.n, "suspect_threshold": self.has_s, "fail_threshold": self.has_f}

    def declare(self, V):
        S = Struct()
        S.rho = V.floats("r", self.n, nan=True)
        S.z = V.floats("z", self.n, nan=True)
        S.st = V.float("st") if self.has_s else None
        S.ft = V.float("ft") if self.has_f else None
        return S

    def invoke(self, mods, S, K):
        kw = {}
        if S.st is not None:
            kw["suspect_threshold"] = S.st
        if S.ft is not None:
            kw["fail_threshold"] = S.ft
        return mods.qartod.density_inversion_test(K.farray(S.rho), K.farray(S.z), **kw)

    def expected(self, S):
        n = self.n
        miss = [mk_or(S.rho[i].nan, S.z[i].nan) for i in range(n)]
        pair_flag = []
        for i in range(n - 1):
            dz = S.z[i + 1].v - S.z[i].v
            dr = S.rho[i + 1].v - S.rho[i].v
            delta = mk_if(dz > 0, dr, mk_if(dz < 0, -dr, rv(0)))
            pairs = []
            if S.ft is not None:
                pairs.append(((delta <= S.ft.v) if self.canary == "le" else (delta < S.ft.v), FAIL))
            if S.st is not None:
                pairs.append((delta < S.st.v, SUSPECT))
            complete = mk_and(mk_not(miss[i]), mk_not(miss[i + 1]))
            pair_flag.append(mk_if(complete, cases(*pairs, default=GOOD), iv(GOOD)))
        exp = []
        for i in range(n):
            worst = iv(GOOD)
            if i > 0:
                worst = zmax(worst, pair_flag[i - 1])
            if i < n - 1:
                worst = zmax(worst, pair_flag[i])
            is_missing = mk_or(miss[i], miss[i - 1]) if i > 0 else miss[i]
            exp.append(mk_if(is_missing, iv(MISSING), worst))
        return exp, miss

    def holds(self, S, out):
        if out.raised:
            return [("density_inversion_test does not raise for a valid call", FALSE)]
        n = self.n
        obl = shape_obligations(out, n)
        if n == 1:
            obl.append(("a single point is UNKNOWN (or MISSING when missing)",
                        mk_or(flag_is(out.flags[0], UNKNOWN), mk_and(mk_or(S.rho[0].nan, S.z[0].nan), flag_is(out.flags[0], MISSING)))))
            return obl
        exp, miss = self.expected(S)
        for i in range(n):
            obl.append((f"flag[{i}] = worst over its complete adjacent pairs / MISSING rule", mk_eq(out.flags[i], exp[i])))
        return obl


class DensityMirror(Job):
    """profile vs reversed profile receive mirrored flags when nothing is missing (two executions compared)."""
    prop = "C13"

    def __init__(self, n):
        self.n = n
        self.name = f"density_inversion mirror n={n}"

    def params(self):
        return {"n": self.n, "law": "flags(reverse(profile)) == reverse(flags(profile))"}

    def declare(self, V):
        S = Struct()
        S.rho = V.floats("r", self.n)
        S.z = V.floats("z", self.n)
        S.st = V.float("st")
        S.ft = V.float("ft")
        return S

    def invoke(self, mods, S, K):
        f = mods.qartod.density_inversion_test
        a = f(K.farray(S.rho), K.farray(S.z), suspect_threshold=S.st, fail_threshold=S.ft)
        b = f(K.farray(S.rho[::-1]), K.farray(S.z[::-1]), suspect_threshold=S.st, fail_threshold=S.ft)
        return (a, b)

    def observe(self, result):
        a, b = observe(result[0]), observe(result[1])
        return Outcome(flags=a.flags + b.flags, mask=a.mask + b.mask, shape=(len(a.flags) + len(b.flags),))

    def holds(self, S, out):
        if out.raised:
            return [("does not raise", FALSE)]
        n = self.n
        obl = [("both runs return n flags", TRUE if len(out.flags) == 2 * n else FALSE)]
        for i in range(n):
            obl.append((f"mirror: flag[{i}] of the profile equals flag[{n - 1 - i}] of the reversed profile",
                        mk_eq(out.flags[i], out.flags[n + (n - 1 - i)])))
        return obl


class Pressure(Job):
    prop = "C13"

    def __init__(self, n, carrier="ndarray", canary=None):
        self.n, self.carrier, self.canary = n, carrier, canary
        self.name = f"pressure_increasing n={n} carrier={carrier}" + (f" CANARY={canary}" if canary else "")
        if canary:
            self.expect_canary_sat = True
            self.validate_witnesses = False

    def params(self):
        return {"n": self.n, "carrier": self.carrier}

    def declare(self, V):
        S = Struct()
        S.p = V.floats("p", self.n)
        return S

    def invoke(self, mods, S, K):
        return mods.argo.pressure_increasing_test(K.farray(S.p) if self.carrier == "ndarray" else K.flist(S.p))

    def holds(self, S, out):
        if out.raised:
            return [("pressure_increasing_test does not raise for a valid call", FALSE)]
        n = self.n
        obl = shape_obligations(out, n)
        if n == 0:
            return obl
        obl.append(("the first point is GOOD", flag_is(out.flags[0], GOOD)))
        if n == 1:
            return obl
        total = S.p[n - 1].v - S.p[0].v          # (n-1) * mean step
        for i in range(1, n):
            step = S.p[i].v - S.p[i - 1].v
            up = step > 0
            down = step < 0
            if self.canary == "nonstrict":
                up = step >= 0
            exp_pos = mk_if(up, iv(GOOD), iv(SUSPECT))
            exp_neg = mk_if(down, iv(GOOD), iv(SUSPECT))
            ok = mk_if(total > 0, mk_eq(out.flags[i], exp_pos),
                       mk_if(total < 0, mk_eq(out.flags[i], exp_neg), flag_in(out.flags[i], (GOOD, SUSPECT))))
            obl.append((f"flag[{i}] is SUSPECT iff the step does not move strictly in the overall direction", ok))
        return obl


def jobs(tier):
    N = 4 if tier == "quick" else 8
    out = []
    for n in range(0, N + 1):
        for has_s, has_f in ((True, True), (True, False), (False, True), (False, False)):
            if n > 3 and not (has_s and has_f):
                continue
            out.append(Density(n, has_s, has_f))
    for n in range(2, (4 if tier == "quick" else 6) + 1):
        out.append(DensityMirror(n))
    for n in range(0, N + 2):
        out.append(Pressure(n))
    out.append(Pressure(3, carrier="list"))
    out.append(Density(3, True, True, canary="le"))
    out.append(Pressure(3, canary="nonstrict"))
    return out


FUNCTIONS = ["ioos_qc/qartod.py:density_inversion_test", "ioos_qc/argo.py:pressure_increasing_test"]
OUTSIDE = ["profiles longer than the bound", "values off grid G", "pressure series containing NaN (no missing-data handling documented)",
           "pressure profile whose mean step is exactly 0: either reading accepted"]
ASSUMPTIONS = ["numpy.ma environment model validated per path against numpy 1.26",
               "on grid G differences, sign(.)*(.) and sums of <= 8 terms are exact in binary64 (Lemma E)"]


def bounds(tier):
    return {"profile_length": "0..4" if tier == "quick" else "0..8", "thresholds": "each present/absent, any real value",
            "missing": "independent NaN flags on density and depth", "mirror_law_length": "2..4" if tier == "quick" else "2..6"}


LEVEL_TEXT = ("bounded symbolic model checking of the real density_inversion_test / pressure_increasing_test source; the mirror "
              "law is decided between two symbolic executions (profile and reversed profile)")
LEVEL_NOTE = "bounds: n<=4/8, grid G; numpy.ma environment model validated by per-path witnesses"
TECHNIQUE = "symbolic execution of the real Python source over a modelled numpy + z3 (SMT, QF_LRA)"
