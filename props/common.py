"""Shared oracle vocabulary for the property checks."""
from __future__ import annotations

import z3

from symex.harness import Job, Outcome, Struct
from symex.values import FALSE, TRUE, SBool, SFloat, SInt, STime, mk_and, mk_eq, mk_if, mk_not, mk_or, rv

GOOD, UNKNOWN, SUSPECT, FAIL, MISSING = 1, 2, 3, 4, 9
FLAGSET = (GOOD, UNKNOWN, SUSPECT, FAIL, MISSING)


def iv(k):
    return z3.IntVal(k)


def zmin(a, b):
    return mk_if(a <= b, a, b)


def zmax(a, b):
    return mk_if(a >= b, a, b)


def zabs(a):
    return mk_if(a >= 0, a, -a)


def flag_is(term, k):
    return mk_eq(term, iv(k))


def flag_in(term, ks):
    return mk_or(*[mk_eq(term, iv(k)) for k in ks])


def cases(*pairs, default):
    """cases((cond, value), ..., default=value) -> nested If."""
    out = default if not isinstance(default, int) else iv(default)
    for c, v in reversed(pairs):
        out = mk_if(c, v if not isinstance(v, int) else iv(v), out)
    return out


def exception_obligations(out, cond, exc_types=(ValueError,), what="rejection"):
    """The call must raise one of exc_types exactly when cond holds."""
    if out.raised:
        ok = isinstance(out.exc, exc_types)
        return [(f"raises {type(out.exc).__name__} only when {what} is required", cond if ok else FALSE)]
    return [(f"returns only when no {what} is required", mk_not(cond))]


def shape_obligations(out, n):
    """1-d result with exactly n entries, nothing masked."""
    obl = [("result has one entry per input element, same shape", TRUE if tuple(out.shape) == (n,) else FALSE)]
    obl.append(("no flag hidden behind a mask", mk_not(mk_or(*out.mask)) if out.mask else TRUE))
    return obl
