"""C03 — range tests: inclusive interval membership, fail before suspect."""
from __future__ import annotations

import numpy as np
import z3

from symex.harness import Job, Struct
from symex.values import FALSE, TRUE, mk_and, mk_eq, mk_if, mk_not, mk_or
from .common import (FAIL, GOOD, MISSING, SUSPECT, cases, exception_obligations, flag_is, iv, shape_obligations, zmax,
                     zmin)


class GrossRange(Job):
    prop = "C03"
    offgrid = "scale"      # comparison-only oracle: exact on every float, see harness.offgrid_probe
    functions = (("ioos_qc/qartod.py", "gross_range_test"), ("ioos_qc/utils.py", "isfixedlength"))

    def __init__(self, n, suspect, span_kind="tuple", canary=None):
        self.n, self.suspect, self.span_kind, self.canary = n, suspect, span_kind, canary
        self.name = f"gross_range n={n} suspect={suspect} span={span_kind}" + (f" CANARY={canary}" if canary else "")
        if canary:
            self.expect_canary_sat = True
            self.validate_witnesses = False

    def params(self):
        return {"n": self.n, "suspect_span": self.suspect, "span_kind": self.span_kind}

    def declare(self, V):
        S = Struct()
        S.x = V.floats("x", self.n, nan=True)
        S.f = [V.float("f0"), V.float("f1")]
        S.s = [V.float("s0"), V.float("s1")] if self.suspect else None
        return S

    def invoke(self, mods, S, K):
        mk = K.ftuple if self.span_kind == "tuple" else K.flist
        kw = {"fail_span": mk(S.f)}
        if S.s is not None:
            kw["suspect_span"] = mk(S.s)
        return mods.qartod.gross_range_test(K.farray(S.x), **kw)

    def holds(self, S, out):
        fmin, fmax = zmin(S.f[0].v, S.f[1].v), zmax(S.f[0].v, S.f[1].v)
        if S.s is not None:
            smin, smax = zmin(S.s[0].v, S.s[1].v), zmax(S.s[0].v, S.s[1].v)
            bad = mk_or(smin < fmin, smax > fmax)
        else:
            bad = FALSE
        obl = exception_obligations(out, bad, (ValueError,), "a suspect span outside the fail span")
        if out.raised:
            return obl
        obl += shape_obligations(out, self.n)
        for i, x in enumerate(S.x):
            fail = mk_or(x.v < fmin, x.v > fmax)
            if self.canary == "fail_inclusive":
                fail = mk_or(x.v <= fmin, x.v > fmax)
            if S.s is not None:
                susp = mk_or(x.v < smin, x.v > smax)
                if self.canary == "suspect_first":
                    exp = cases((susp, SUSPECT), (fail, FAIL), default=GOOD)
                else:
                    exp = cases((fail, FAIL), (susp, SUSPECT), default=GOOD)
            else:
                exp = cases((fail, FAIL), default=GOOD)
            obl.append((f"flag[{i}] follows interval membership (present value)",
                        mk_or(x.nan, mk_eq(out.flags[i], exp))))
        return obl


class GrossRangeBadSpan(Job):
    """A span that is not a 2-sequence is rejected."""
    prop = "C03"
    functions = (("ioos_qc/qartod.py", "gross_range_test"), ("ioos_qc/utils.py", "isfixedlength"))

    def __init__(self, which, length):
        self.which, self.length = which, length
        self.name = f"gross_range bad {which} span length={length}"

    def params(self):
        return {"which": self.which, "length": self.length}

    def declare(self, V):
        S = Struct()
        S.x = V.floats("x", 2, nan=True)
        S.bad = V.floats("b", self.length)
        S.f = [V.float("f0"), V.float("f1")]
        return S

    def invoke(self, mods, S, K):
        if self.which == "fail":
            return mods.qartod.gross_range_test(K.farray(S.x), fail_span=K.ftuple(S.bad))
        return mods.qartod.gross_range_test(K.farray(S.x), fail_span=K.ftuple(S.f), suspect_span=K.ftuple(S.bad))

    def holds(self, S, out):
        return [("a span of the wrong length is rejected", TRUE if out.raised and isinstance(out.exc, ValueError) else FALSE)]


class ValidRange(Job):
    prop = "C03"
    offgrid = "scale"      # comparison-only oracle: exact on every float, see harness.offgrid_probe
    functions = (("ioos_qc/axds.py", "valid_range_test"), ("ioos_qc/utils.py", "isnan"))

    def __init__(self, n, kind, start_inclusive, end_inclusive, pass_flags=True, canary=None, frac=False):
        self.n, self.kind, self.si, self.ei, self.pass_flags, self.canary = n, kind, start_inclusive, end_inclusive, pass_flags, canary
        self.frac = frac       # datetime64 only: timestamps and bounds carry a sub-second part (any ns)
        self.name = (f"valid_range {kind} n={n} start_inclusive={start_inclusive} end_inclusive={end_inclusive}"
                     + ({True: "", False: " (defaults)", "start": " (only start_inclusive passed)", "end": " (only end_inclusive passed)"}[pass_flags])
                     + (" sub-second stamps" if frac else "") + (f" CANARY={canary}" if canary else ""))
        if frac:
            self.offgrid = None
        if canary:
            self.expect_canary_sat = True
            self.validate_witnesses = False

    def params(self):
        return {"n": self.n, "dtype": self.kind, "start_inclusive": self.si, "end_inclusive": self.ei}

    def declare(self, V):
        S = Struct()
        if self.kind == "float64":
            S.x = V.floats("x", self.n, nan=True)
            S.span = [V.float("lo", nan=True), V.float("hi", nan=True)]   # nan = bound absent (None)
        elif self.kind == "int64 data, dtype=float64":
            # integer data judged against a fractional span, with the comparison type passed explicitly
            S.x = [V.int(f"x{i}", -2 ** 20, 2 ** 20) for i in range(self.n)]
            S.span = [V.float("lo", nan=True), V.float("hi", nan=True)]
        else:
            S.x = [V.time(f"x{i}", nat=True, frac=self.frac, den=10 ** 9) for i in range(self.n)]
            S.span = [V.time("lo", nat=True, frac=self.frac, den=10 ** 9), V.time("hi", nat=True, frac=self.frac, den=10 ** 9)]
        return S

    def invoke(self, mods, S, K):
        kw = {}
        if self.kind == "float64":
            inp = K.farray(S.x)
            span = K.ftuple(S.span)
        elif self.kind == "int64 data, dtype=float64":
            inp = K.iarray(S.x, "int64")
            span = K.ftuple(S.span)
            kw["dtype"] = np.float64
        else:
            inp = K.tarray(S.x)
            span = tuple(K.tnone(v) for v in S.span)
        if self.pass_flags is True:
            kw.update({"start_inclusive": self.si, "end_inclusive": self.ei})
        elif self.pass_flags == "start":
            kw.update({"start_inclusive": self.si})
        elif self.pass_flags == "end":
            kw.update({"end_inclusive": self.ei})
        return mods.axds.valid_range_test(inp, valid_span=span, **kw)

    def holds(self, S, out):
        if out.raised:
            return [("valid_range_test does not raise on a well-formed call", FALSE)]
        obl = shape_obligations(out, self.n)
        isf = self.kind in ("float64", "int64 data, dtype=float64")
        val = (lambda v: (z3.ToReal(v.v) if z3.is_int(v.v) else v.v)) if isf else (lambda v: z3.ToReal(v.s) + v.f if getattr(v, "f", None) is not None else v.s)
        miss = (lambda v: getattr(v, "nan", FALSE)) if isf else (lambda v: v.nat)
        lo, hi = S.span
        # documented defaults: start_inclusive=True, end_inclusive=False - each on its own
        si = self.si if self.pass_flags in (True, "start") else True
        ei = self.ei if self.pass_flags in (True, "end") else False
        if self.canary == "end_inclusive_flip":
            ei = not ei
        for i, x in enumerate(S.x):
            below = (val(x) < val(lo)) if si else (val(x) <= val(lo))
            above = (val(x) > val(hi)) if ei else (val(x) >= val(hi))
            fail = mk_or(mk_and(mk_not(miss(lo)), below), mk_and(mk_not(miss(hi)), above))
            exp = cases((fail, FAIL), default=GOOD)
            obl.append((f"flag[{i}] is FAIL exactly outside the valid span (present value)",
                        mk_or(miss(x), mk_eq(out.flags[i], exp))))
        return obl


def jobs(tier):
    N = 6 if tier == "quick" else 16
    out = []
    for n in range(0, N + 1):
        for suspect in (False, True):
            out.append(GrossRange(n, suspect, "tuple"))
        if n in (1, 3):
            out.append(GrossRange(n, True, "list"))
    for which in ("fail", "suspect"):
        for length in (0, 1, 3):
            out.append(GrossRangeBadSpan(which, length))
    for kind in ("float64", "datetime64"):
        for n in range(0, (4 if tier == "quick" else 10) + 1):
            for si in (True, False):
                for ei in (True, False):
                    out.append(ValidRange(n, kind, si, ei))
        out.append(ValidRange(2, kind, True, False, pass_flags=False))
        out.append(ValidRange(2, kind, False, False, pass_flags="start"))
        if kind == "float64":
            for si, ei in ((True, False), (False, True)):
                out.append(ValidRange(2, "int64 data, dtype=float64", si, ei))
        out.append(ValidRange(2, kind, True, True, pass_flags="end"))
    for si in (True, False):
        for ei in (True, False):
            out.append(ValidRange(2, "datetime64", si, ei, frac=True))
    # vacuity canaries: a deliberately wrong oracle must be refuted
    out.append(GrossRange(2, True, canary="fail_inclusive"))
    out.append(GrossRange(2, True, canary="suspect_first"))
    out.append(ValidRange(2, "float64", True, False, canary="end_inclusive_flip"))
    return out


FUNCTIONS = ["ioos_qc/qartod.py:gross_range_test", "ioos_qc/axds.py:valid_range_test", "ioos_qc/utils.py:isfixedlength",
             "ioos_qc/utils.py:isnan"]
OUTSIDE = ["series longer than the bound", "values off grid G (|x|>2^20, finer than 2^-10, +-inf)", "multi-dimensional inputs",
           "integer / datetime64 units other than ns for valid_range_test", "dtype=None guessing branch of valid_range_test"]
ASSUMPTIONS = ["environment model of numpy.ma (symex/symnp.py) validated per path against numpy 1.26 in /venv",
               "reals with a NaN flag stand for binary64 on grid G (comparisons only: exact)",
               "z3 5.1 is sound"]


def bounds(tier):
    return {"series_length": "0..6" if tier == "quick" else "0..16", "valid_range_length": "0..4" if tier == "quick" else "0..10",
            "spans": "all four numbers symbolic, any order", "inclusivity": "all 4 settings enumerated",
            "dtypes": ["float64", "datetime64[ns]"]}


LEVEL_TEXT = ("bounded symbolic model checking: the real gross_range_test / valid_range_test source is executed on symbolic "
              "series (every value, NaN placement and span relation at once) and z3 proves flag = interval-membership oracle "
              "on every path; counterexamples are replayed on the real numpy stack")
LEVEL_NOTE = "bounds: n<=6 (quick) / 16 (thorough), grid G; numpy.ma is an environment model validated by per-path witnesses"
TECHNIQUE = "symbolic execution of the real Python source over a modelled numpy + z3 (SMT, QF_LRA)"


def _gr_valid(self, S):
    from symex.values import mk_and
    if S.s is None:
        return TRUE
    fmin, fmax = zmin(S.f[0].v, S.f[1].v), zmax(S.f[0].v, S.f[1].v)
    smin, smax = zmin(S.s[0].v, S.s[1].v), zmax(S.s[0].v, S.s[1].v)
    return mk_and(smin >= fmin, smax <= fmax)


GrossRange.valid_params = _gr_valid
