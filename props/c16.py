"""C16 — stricter thresholds never produce a better flag."""
from __future__ import annotations

import z3

from symex.harness import Job, Struct
from symex.values import FALSE, TRUE, mk_and, mk_eq, mk_if, mk_not, mk_or
from .common import FAIL, GOOD, MISSING, SUSPECT, UNKNOWN, flag_in, flag_is, zmax, zmin
from .rel import Pair, PrefixVars, clone
from . import c03, c08, c09, c10, c11, c12, c13, c14


def nested(inner, outer):
    """[min inner, max inner] inside [min outer, max outer] (spans may be given in either order)"""
    a0, a1 = inner[0].v, inner[1].v
    b0, b1 = outer[0].v, outer[1].v
    return mk_and(zmin(a0, a1) >= zmin(b0, b1), zmax(a0, a1) <= zmax(b0, b1))


def le(a, b):
    return a.v <= b.v


class Mono(Pair):
    prop = "C16"

    def __init__(self, loose, strict, data, relate, label):
        Pair.__init__(self, loose, strict)
        self.data, self.relate = data, relate
        self.name = f"monotone[{label}]: {loose.name}"

    def declare(self, V):
        A = self.a.declare(V)
        B = self.b.declare(PrefixVars(V, "q_"))
        for name in self.data:
            setattr(B, name, getattr(A, name))
        for base, S in ((self.a, A), (self.b, B)):
            if hasattr(base, "valid_params"):
                V.assume(base.valid_params(S))
        V.assume(self.relate(A, B))
        return Struct(a=A, b=B)

    def holds(self, S, out):
        o2 = out.extra.get("other") if not out.raised else None
        if out.raised or o2 is None or o2.raised:
            return [("both runs return", FALSE)]
        if len(out.flags) != len(o2.flags):
            return [("both runs return the same number of flags", FALSE)]
        obl = []
        for i, (f, g) in enumerate(zip(out.flags, o2.flags)):
            sev_f, sev_g = flag_in(f, (GOOD, SUSPECT, FAIL)), flag_in(g, (GOOD, SUSPECT, FAIL))
            obl.append((f"[{i}] not less severe under stricter parameters", mk_or(mk_not(sev_f), mk_not(sev_g), g >= f)))
            obl.append((f"[{i}] UNKNOWN/MISSING set unchanged", mk_and(mk_eq(sev_f, sev_g), mk_or(sev_f, mk_eq(f, g)))))
        return obl


def jobs(tier):
    N = 3 if tier == "quick" else 5
    M = c08.MemberShape
    out = []
    for n in range(1, N + 1):
        out.append(Mono(c03.GrossRange(n, True), c03.GrossRange(n, True), ["x"],
                        lambda A, B: mk_and(nested(B.f, A.f), nested(B.s, A.s)), "nested fail+suspect spans"))
        out.append(Mono(c03.GrossRange(n, False), c03.GrossRange(n, True), ["x"],
                        lambda A, B: nested(B.f, A.f), "suspect span added"))
        for si, ei in ((True, False), (False, True)):
            out.append(Mono(c03.ValidRange(n, "float64", si, ei), c03.ValidRange(n, "float64", si, ei), ["x"],
                            lambda A, B: mk_and(mk_or(A.span[0].nan, mk_and(mk_not(B.span[0].nan), B.span[0].v >= A.span[0].v)),
                                                mk_or(A.span[1].nan, mk_and(mk_not(B.span[1].nan), B.span[1].v <= A.span[1].v))),
                            "nested valid span"))
        for method in ("average", "differential"):
            out.append(Mono(c09.Spike(n, method, True, True), c09.Spike(n, method, True, True), ["x"],
                            lambda A, B: mk_and(le(B.st, A.st), le(B.ft, A.ft)), "smaller spike thresholds"))
        out.append(Mono(c09.Spike(n, "average", False, True), c09.Spike(n, "average", True, True), ["x"],
                        lambda A, B: le(B.ft, A.ft), "suspect threshold added"))
        out.append(Mono(c10.RateOfChange(n), c10.RateOfChange(n), ["x", "t"], lambda A, B: le(B.thr, A.thr), "smaller rate threshold"))
        out.append(Mono(c13.Density(n, True, True), c13.Density(n, True, True), ["rho", "z"],
                        lambda A, B: mk_and(le(A.st, B.st), le(A.ft, B.ft)), "larger density thresholds"))
        out.append(Mono(c13.Density(n, False, True), c13.Density(n, True, True), ["rho", "z"],
                        lambda A, B: le(A.ft, B.ft), "suspect threshold added"))
        out.append(Mono(c14.Location(n, "given", True), c14.Location(n, "given", True), ["lon", "lat"],
                        lambda A, B: mk_and(B.box[0].v >= A.box[0].v, B.box[1].v >= A.box[1].v, B.box[2].v <= A.box[2].v,
                                            B.box[3].v <= A.box[3].v, le(B.rmax, A.rmax)), "nested box, smaller range_max"))
        out.append(Mono(c14.Location(n, "default", False), c14.Location(n, "given", True), ["lon", "lat"],
                        lambda A, B: TRUE, "box and range_max added"))
        if n <= 3:
            out.append(Mono(c10.Speed(n), c10.Speed(n), ["lon", "lat", "t"],
                            lambda A, B: mk_and(le(B.st, A.st), le(B.ft, A.ft)), "smaller speed thresholds"))
            out.append(Mono(c11.FlatLine(n, 60), c11.FlatLine(n, 60), ["x", "t"],
                            lambda A, B: mk_and(B.st.v <= A.st.v, B.ft.v <= A.ft.v, B.tol.v >= A.tol.v),
                            "shorter durations, larger tolerance"))
            for check in ("range", "std"):
                for period in (False, True):
                    if check == "std" and n > 2 and tier == "quick":
                        continue
                    a, b = c12.Attenuated(n, check, period), c12.Attenuated(n, check, period)
                    data = ["x", "t"] + (["P"] if period else [])
                    out.append(Mono(a, b, data, lambda A, B: mk_and(le(A.st, B.st), le(A.ft, B.ft)), "larger attenuation thresholds"))
        if n <= 2:
            for p in (None, "month"):
                a, b = c08.Climatology(n, [M(p, True, True)], prop="C16"), c08.Climatology(n, [M(p, True, True)], prop="C16")
                out.append(Mono(a, b, ["x", "z", "t"],
                                lambda A, B: mk_and(nested(B.m[0].vspan, A.m[0].vspan), nested(B.m[0].fspan, A.m[0].fspan),
                                                    _same_span(A.m[0].tspan, B.m[0].tspan), _same_span(A.m[0].zspan, B.m[0].zspan)),
                                "nested valid+fail spans"))
    return out


def _same_span(a, b):
    def val(x):
        return x.v if hasattr(x, "v") else x.s
    return mk_and(mk_eq(val(a[0]), val(b[0])), mk_eq(val(a[1]), val(b[1])))


FUNCTIONS = ["ioos_qc/qartod.py:gross_range_test", "ioos_qc/axds.py:valid_range_test", "ioos_qc/qartod.py:climatology_test",
             "ioos_qc/qartod.py:spike_test", "ioos_qc/qartod.py:rate_of_change_test", "ioos_qc/qartod.py:flat_line_test",
             "ioos_qc/qartod.py:attenuated_signal_test", "ioos_qc/qartod.py:density_inversion_test", "ioos_qc/qartod.py:location_test",
             "ioos_qc/argo.py:speed_test"]
OUTSIDE = ["series longer than the bound", "parameter sets that are not individually admissible", "values off grid G",
           "hop / speed distances: monotonicity holds through the uninterpreted geodesic by functional consistency"]
ASSUMPTIONS = ["numpy/pandas environment model validated per path against the real stack", "thresholds >= 0"]


def bounds(tier):
    return {"series_length": "1..3" if tier == "quick" else "1..5", "pairs": "all ordered (loose, strict) parameter pairs: both symbolic, "
            "constrained only by the ordering the property states", "tests": 10}


LEVEL_TEXT = ("bounded symbolic model checking of a 2-safety property: the real test function is executed twice on the same "
              "symbolic data with two symbolic parameter sets related by the property's ordering, and z3 proves per point that "
              "severity does not decrease and the UNKNOWN/MISSING set is unchanged")
LEVEL_NOTE = "bounds: n<=3/5, grid G; environment model validated by per-path witnesses (both runs replayed)"
TECHNIQUE = "relational symbolic execution (self-composition) of the real Python source over a modelled numpy/pandas + z3"
