"""C06 — collected results put every context's flags back on the right input rows."""
from __future__ import annotations

import itertools

import numpy as np
import z3

from symex import symnp as snp
from symex.harness import Job, Outcome, Struct
from symex.values import FALSE, TRUE, SBool, SDelta, SFloat, SInt, STime, mk_and, mk_eq, mk_if, mk_not, mk_or, rv
from .common import UNKNOWN, iv


def enc(x):
    """scalar (symbolic or real) -> (z3 Bool 'is missing/NaN/NaT', z3 arithmetic term)"""
    if isinstance(x, SFloat):
        return x.nan, x.v
    if isinstance(x, SInt):
        return FALSE, z3.ToReal(x.v) if not z3.is_int_value(x.v) else rv(x.v.as_long())
    if isinstance(x, SBool):
        return FALSE, mk_if(x.b, rv(1), rv(0))
    if isinstance(x, STime):
        base = z3.ToReal(x.s) if not z3.is_int_value(x.s) else rv(x.s.as_long())
        return x.nat, base if getattr(x, "f", None) is None else base + x.f
    if isinstance(x, (np.datetime64,)):
        if np.isnat(x):
            return TRUE, rv(0)
        from fractions import Fraction
        return FALSE, rv(Fraction(int(x.astype("datetime64[ns]").astype("int64")), 10 ** 9))
    if isinstance(x, (float, np.floating)):
        if x != x:
            return TRUE, rv(0)
        return FALSE, rv(float(x))
    if isinstance(x, (int, np.integer, bool, np.bool_)):
        return FALSE, rv(int(x))
    if x is None:
        return TRUE, rv(0)
    raise TypeError(type(x))


def enc_array(arr):
    """-> list of (masked, isnan, value) per element, or None if absent"""
    if isinstance(arr, snp.ndarray):
        ms = [m.b for m in arr._mask.a.flat] if (arr._is_masked and arr._mask is not None) else [FALSE] * arr.a.size
        return [(m,) + enc(x) for m, x in zip(ms, arr.a.flat)]
    a = np.ma.getdata(arr)
    ms = np.ma.getmaskarray(arr)
    return [((TRUE if m else FALSE),) + enc(x) for m, x in zip(ms.flat, a.flat)]


class Collect(Job):
    prop = "C06"
    max_paths = 6000

    def __init__(self, n, order, streams=1, tests=1, axes=True, canary=None, readonly=False, testsets=None):
        """n rows; `order`: tuple giving the arrival order of the contexts (a permutation of range(k))"""
        self.n, self.order, self.k, self.streams, self.tests, self.canary = n, tuple(order), len(order), streams, tests, canary
        # axes: True (all four supplied), False (none) or the names of those the stream supplies ("tinp", "zinp", "lat", "lon")
        self.axes = ("tinp", "zinp", "lat", "lon") if axes is True else (() if axes is False else tuple(axes))
        self.readonly = readonly
        # testsets[c]: the tests (indices, in result order) context c ran - contexts of one stream need not list the same tests
        self.testsets = testsets
        axlab = "present" if len(self.axes) == 4 else ("absent" if not self.axes else "only:" + "+".join(self.axes))
        self.name = (f"collect n={n} contexts={self.k} order={''.join(map(str, order))} streams={streams} tests={tests} "
                     f"axes={axlab}{' readonly' if readonly else ''}{' testsets=' + str(testsets) if testsets else ''}") + (f" CANARY={canary}" if canary else "")
        if canary:
            self.expect_canary_sat = True
            self.validate_witnesses = False

    def params(self):
        return {"rows": self.n, "contexts": self.k, "arrival_order": list(self.order), "streams": self.streams, "tests": self.tests,
                "axes": list(self.axes)}

    def declare(self, V):
        S = Struct()
        n, k = self.n, self.k
        # owner[r] in -1..k-1: which context's window covers row r (disjoint windows by construction)
        S.owner = [V.int(f"own{r}", -1, k - 1) for r in range(n)]
        S.data = [V.floats(f"d{s}_", n, nan=True) for s in range(self.streams)]
        S.t = [V.time(f"t{r}") for r in range(n)]
        S.z = V.floats("z", n, nan=True)
        S.lat = V.floats("lat", n, nan=True, lo=-90, hi=90)
        S.lon = V.floats("lon", n, nan=True, lo=-180, hi=180)
        # flag produced for (stream, test, context, row)
        S.flag = [[[[V.int(f"f{s}_{q}_{c}_{r}", 0, 9) for r in range(n)] for c in range(k)] for q in range(self.tests)]
                  for s in range(self.streams)]
        return S

    def invoke(self, mods, S, K):
        R = mods.results
        n, k = self.n, self.k
        if self.readonly:
            K = _ReadOnlyKit(K)
        owner = [int(o) for o in S.owner]           # symbolic: forks over the window layouts
        names = ["spike_test", "gross_range_test"]
        funcs = [getattr(mods.qartod, nm) for nm in names]
        ctx_results = []
        for c in self.order:
            rows = [r for r in range(n) if owner[r] == c]
            sub = K.barray([owner[r] == c for r in range(n)])
            for s in range(self.streams):
                calls = [R.CallResult(package="qartod", test=names[q], function=funcs[q],
                                      results=K.iarray([S.flag[s][q][c][r] for r in rows], "uint8"))
                         for q in (self.testsets[c] if self.testsets else range(self.tests))]
                kw = dict(tinp=K.tarray([S.t[r] for r in rows] if "tinp" in self.axes else []),
                          zinp=K.farray([S.z[r] for r in rows] if "zinp" in self.axes else []),
                          lat=K.farray([S.lat[r] for r in rows] if "lat" in self.axes else []),
                          lon=K.farray([S.lon[r] for r in rows] if "lon" in self.axes else []))
                ctx_results.append(R.ContextResult(stream_id=f"s{s}", results=calls, subset_indexes=sub,
                                                   data=K.farray([S.data[s][r] for r in rows]), **kw))
        snap_before = [self._snap(cr) for cr in ctx_results]
        lst = R.collect_results(list(ctx_results), how="list")
        dct = R.collect_results(list(ctx_results), how="dict")
        snap_after = [self._snap(cr) for cr in ctx_results]
        return {"list": lst, "dict": dct, "owner": owner, "before": snap_before, "after": snap_after}

    @staticmethod
    def _snap(cr):
        out = []
        for arr in [cr.subset_indexes, cr.data, cr.tinp, cr.zinp, cr.lat, cr.lon] + [t.results for t in cr.results]:
            out.append(enc_array(arr))
        return out

    def observe(self, res):
        names = ["spike_test", "gross_range_test"]
        items = []   # (label, masked, isnan, value)
        lst = res["list"]
        keys = [(c.stream_id, c.package, c.test) for c in lst]
        for c in lst:
            for fld in ("results", "data", "tinp", "zinp", "lat", "lon"):
                arr = getattr(c, fld)
                e = enc_array(arr)
                for i, (m, nn, v) in enumerate(e):
                    items.append((f"list:{c.stream_id}:{c.test}:{fld}[{i}]", m, nn, v))
        dct = res["dict"]
        for s in range(self.streams):
            for q in range(self.tests):
                try:
                    arr = dct[f"s{s}"]["qartod"][names[q]]
                except Exception:
                    arr = None
                if arr is None or not hasattr(arr, "shape"):
                    items.append((f"dict:s{s}:{names[q]}:absent", TRUE, TRUE, rv(0)))
                    continue
                for i, (m, nn, v) in enumerate(enc_array(arr)):
                    items.append((f"dict:s{s}:{names[q]}[{i}]", m, nn, v))
        unchanged = TRUE
        for b, a in zip(res["before"], res["after"]):
            for eb, ea in zip(b, a):
                if len(eb) != len(ea):
                    unchanged = FALSE
                    continue
                for (m1, n1, v1), (m2, n2, v2) in zip(eb, ea):
                    unchanged = mk_and(unchanged, mk_eq(m1, m2), mk_eq(n1, n2), mk_or(n1, mk_eq(v1, v2)))
        flags, mask = [], []
        for (lab, m, nn, v) in items:
            # what lies under a mask is not observable
            flags += [mk_if(m, rv(0), mk_if(nn, rv(1), rv(0))), mk_if(mk_or(m, nn), rv(0), v)]
            mask += [m, m]
        return Outcome(flags=flags, mask=mask, shape=(len(flags),),
                       extra={"items": items, "keys": keys, "owner": res["owner"], "unchanged": unchanged})

    def holds(self, S, out):
        if out.raised:
            return [(f"collecting does not raise ({type(out.exc).__name__}: {str(out.exc)[:90]})", FALSE)]
        names = ["spike_test", "gross_range_test"]
        n, k = self.n, self.k
        owner = out.extra["owner"]
        items = {lab: (m, nn, v) for lab, m, nn, v in out.extra["items"]}
        covered_any = any(o >= 0 for o in owner)
        obl = []
        # one result per (stream, module, test) -- for those that produced at least one ContextResult (all do)
        want = [(f"s{s}", "qartod", names[q]) for s in range(self.streams) for q in range(self.tests)]
        keys = out.extra["keys"]
        obl.append(("exactly one collected result per (stream id, module, test)",
                    TRUE if sorted(keys) == sorted(want) and len(set(keys)) == len(keys) else FALSE))
        # (whether collecting may write into the ContextResults' own arrays is not part of this property; what matters is
        #  that read-only arrays - which is what pandas hands out - do not make it fail: see the `readonly` jobs)
        src = {"data": None, "tinp": S.t, "zinp": S.z, "lat": S.lat, "lon": S.lon}
        for s in range(self.streams):
            for q in range(self.tests):
                for r in range(n):
                    c = owner[r]
                    if c >= 0 and self.testsets and q not in self.testsets[c]:
                        c = -1          # this test did not run in the context that covers the row
                    lab = f"list:s{s}:{names[q]}:results[{r}]"
                    if lab not in items:
                        obl.append((f"{lab} exists (one entry per input row)", FALSE))
                        continue
                    m, nn, v = items[lab]
                    dl = f"dict:s{s}:{names[q]}[{r}]"
                    if dl not in items:
                        obl.append((f"{dl} exists (one entry per input row)", FALSE))
                        continue
                    dm, dn, dv = items[dl]
                    if c >= 0:
                        f = z3.ToReal(S.flag[s][q][c][r].v)
                        if self.canary == "wrong_row" and r + 1 < n and owner[r + 1] == c:
                            f = z3.ToReal(S.flag[s][q][c][r + 1].v)
                        obl.append((f"{lab}: covered row carries its context's flag, unmasked", mk_and(mk_not(m), mk_eq(v, f))))
                        obl.append((f"{dl}: covered row carries its context's flag", mk_and(mk_not(dm), mk_eq(dv, f))))
                    else:
                        obl.append((f"{lab}: uncovered row is masked", m))
                        obl.append((f"{dl}: uncovered row is UNKNOWN", mk_and(mk_not(dm), mk_eq(dv, rv(UNKNOWN)))))
                    if c >= 0:
                        for fld, arr in src.items():
                            if fld != "data" and fld not in self.axes:
                                continue
                            x = S.data[s][r] if fld == "data" else arr[r]
                            xn, xv = enc(x)
                            lab2 = f"list:s{s}:{names[q]}:{fld}[{r}]"
                            if lab2 not in items:
                                obl.append((f"{lab2} exists", FALSE))
                                continue
                            m2, n2, v2 = items[lab2]
                            obl.append((f"{lab2}: equals the source value on a covered row",
                                        mk_and(mk_not(m2), mk_eq(n2, xn), mk_or(xn, mk_eq(v2, xv)))))
        return obl


class _ReadOnlyKit:
    """arrays handed out by a stream under pandas copy-on-write are read-only"""

    def __init__(self, K):
        self.K = K
        self.sym = K.sym

    def __getattr__(self, name):
        f = getattr(self.K, name)
        if name in ("farray", "tarray", "iarray", "barray"):
            return lambda *a, **k: self.K.readonly(f(*a, **k))
        return f


def jobs(tier):
    out = []
    n = 3
    for k in (1, 2) if tier == "quick" else (1, 2, 3):
        for order in itertools.permutations(range(k)):
            out.append(Collect(n, order, 1, 1, True))
    out.append(Collect(n, (0, 1), 2, 1, True))
    out.append(Collect(2, (0, 1), 1, 2, True))
    out.append(Collect(2, (1, 0), 2, 2, True))
    out.append(Collect(n, (0,), 1, 1, False))
    out.append(Collect(n, (0, 1), 1, 1, False))
    out.append(Collect(0, (0,), 1, 1, True))
    out.append(Collect(3, (0, 1), 1, 1, True, readonly=True))
    # contexts of one stream that list different tests, in either arrival order
    for order in ((0, 1), (1, 0)):
        out.append(Collect(2, order, 1, 2, True, testsets=((0,), (1, 0))))
    out.append(Collect(2, (0, 1), 1, 2, True, testsets=((0, 1), (1,))))
    out.append(Collect(2, (1, 0), 1, 2, False, readonly=True))
    out.append(Collect(1, (0, 1), 1, 1, True))
    # streams that supply only some of the axes (the others are empty placeholders)
    out.append(Collect(3, (0, 1), 1, 1, ("tinp", "lat", "lon")))
    out.append(Collect(3, (1, 0), 1, 2, ("tinp", "zinp")))
    out.append(Collect(2, (0, 1), 1, 1, ("zinp", "lon")))
    if tier == "thorough":
        out.append(Collect(4, (0, 1), 1, 1, True))
        out.append(Collect(5, (1, 0), 1, 1, True))
        out.append(Collect(4, (0, 1), 2, 2, False))
        out.append(Collect(4, (1, 0, 2), 1, 1, True))
        out.append(Collect(3, (2, 0, 1), 2, 2, True))
    out.append(Collect(3, (0, 1), 1, 1, True, canary="wrong_row"))
    return out


FUNCTIONS = ["ioos_qc/results.py:collect_results", "ioos_qc/results.py:collect_results_list", "ioos_qc/results.py:collect_results_dict",
             "ioos_qc/results.py:CollectedResult"]
OUTSIDE = ["more rows / contexts than the bound", "overlapping windows (the property is about disjoint layouts)", "multi-dimensional subsets",
           "ContextResults whose result list is empty (covered by C18)"]
ASSUMPTIONS = ["ContextResults are built directly (the streams are checked in C05): subset mask layout is a symbolic owner per row, "
               "concretised by forking, so every disjoint layout incl. empty and all-covering windows is explored",
               "np.ma.masked_all / empty_like cells are havoc symbols (a result depending on them is reported)"]


def bounds(tier):
    return {"rows": "0..3" if tier == "quick" else "0..4", "contexts": "1..2" if tier == "quick" else "1..3", "arrival_orders": "all permutations",
            "streams": "1..2", "tests_per_stream": "1..2", "axes": ["present", "absent (empty arrays, as the streams substitute)"]}


LEVEL_TEXT = ("bounded symbolic model checking of the real collect_results_list / collect_results_dict source from arbitrary "
              "sequences of ContextResults: window layout, flags and data are symbolic; z3 proves row alignment, masked/UNKNOWN "
              "for uncovered rows, agreement of the two forms and source equality of the collected axes; arrival orders are enumerated")
LEVEL_NOTE = "bounds: rows<=3/5, contexts<=2/3; uninitialised accumulator cells are havoc symbols"
TECHNIQUE = "symbolic execution of the real Python source over a modelled numpy.ma + z3"
