"""C09 — spike test: interior points vs their two neighbours."""
from __future__ import annotations

from symex.harness import Job, Struct
from symex.values import FALSE, TRUE, mk_and, mk_eq, mk_if, mk_not, mk_or, rv
from .common import (FAIL, GOOD, MISSING, SUSPECT, UNKNOWN, cases, flag_is, iv, shape_obligations, zabs, zmin)


class Spike(Job):
    prop = "C09"

    def __init__(self, n, method, has_s, has_f, carrier="ndarray", canary=None):
        self.n, self.method, self.has_s, self.has_f, self.carrier, self.canary = n, method, has_s, has_f, carrier, canary
        self.name = (f"spike n={n} method={method} suspect={'y' if has_s else 'n'} fail={'y' if has_f else 'n'} "
                     f"carrier={carrier}" + (f" CANARY={canary}" if canary else ""))
        if canary:
            self.expect_canary_sat = True
            self.validate_witnesses = False

    def params(self):
        return {"n": self.n, "method": self.method, "suspect_threshold": self.has_s, "fail_threshold": self.has_f,
                "carrier": self.carrier}

    def declare(self, V):
        S = Struct()
        S.x = V.floats("x", self.n, nan=True)
        S.st = V.float("st", lo=0) if self.has_s else None
        S.ft = V.float("ft", lo=0) if self.has_f else None
        return S

    def offgrid_pins(self, S):
        """thresholds far below grid G.  Sound for the unchanged code: on G the neighbour average (a+b)/2 and the differences
        x-ref, x-a, x-b are exact in binary64, and `diff > threshold` compares two floats exactly."""
        from fractions import Fraction
        pins = []
        if S.st is not None:
            pins.append(("suspect_threshold = 2^-60", {S.st.v: Fraction(1, 2 ** 60)}))
        if S.ft is not None:
            pins.append(("fail_threshold = 2^-50", {S.ft.v: Fraction(1, 2 ** 50)}))
        return pins

    def offgrid_transforms(self):
        """neighbours of huge magnitude and opposite sign: offsets (+B, 0, -B, 0, ...) and the mirrored pattern, B = 2^53, 2^58, 2^63, 2^70.  The inputs
        are whatever binary64 numbers the additions give; the oracle is evaluated exactly on them.  Probed only where every oracle
        comparison is further from its threshold than four times the rounding a *direct* evaluation of the property's formula can
        incur - ulp(|a+c|) + ulp(max(|x|, |ref|)) for the average method (a+c cancels exactly here), ulp of the larger operand for
        the differences - so the unchanged code cannot flip there, while a re-expression that forms c-a first loses up to ulp(B)."""
        import math
        from fractions import Fraction
        method = self.method or "average"
        if method not in ("average", "differential") or self.n < 3:
            return []

        def mk(sign, B):
            def shift(Sc):
                out = Struct(**vars(Sc))
                pat = (sign, 0, -sign, 0)
                out.x = [v if v != v else v + pat[i % 4] * B for i, v in enumerate(Sc.x)]
                return out
            return shift

        def safe(Sc):
            x = Sc.x
            for i in range(1, len(x) - 1):
                a, b, c = x[i - 1], x[i], x[i + 1]
                if a != a or b != b or c != c:
                    continue
                A, Bq, C = Fraction(a), Fraction(b), Fraction(c)
                if method == "average":
                    d = abs(Bq - (A + C) / 2)
                    eb = math.ulp(float(abs(A + C))) + math.ulp(max(abs(b), float(abs(A + C) / 2)))
                else:
                    s1, s2 = Bq - A, C - Bq
                    if s1 == 0 or s2 == 0:
                        return False
                    d = min(abs(s1), abs(s2)) if (s1 > 0) != (s2 > 0) else Fraction(0)
                    eb = math.ulp(max(abs(a), abs(b), abs(c)))
                for t in (Sc.st, Sc.ft):
                    if t is not None and abs(d - Fraction(t)) <= 4 * Fraction(eb):
                        return False
            return True
        return [(f"neighbours offset by {'+-'[sg < 0]}2^{e} / {'-+'[sg < 0]}2^{e}", mk(sg, float(2 ** e)), safe)
                for e in (53, 58, 63, 70) for sg in (1, -1)]

    def invoke(self, mods, S, K):
        inp = K.farray(S.x) if self.carrier == "ndarray" else K.flist(S.x)
        kw = {}
        if S.st is not None:
            kw["suspect_threshold"] = S.st
        if S.ft is not None:
            kw["fail_threshold"] = S.ft
        if self.method is not None:
            kw["method"] = self.method
        return mods.qartod.spike_test(inp, **kw)

    def holds(self, S, out):
        method = self.method or "average"
        if method not in ("average", "differential"):
            return [("an unknown method name is rejected with ValueError",
                     TRUE if out.raised and isinstance(out.exc, ValueError) else FALSE)]
        if out.raised:
            return [("spike_test does not raise for a valid call", FALSE)]
        n = self.n
        obl = shape_obligations(out, n)
        for i in (0, n - 1):
            obl.append((f"end point [{i}] is UNKNOWN when present", mk_or(S.x[i].nan, flag_is(out.flags[i], UNKNOWN))))
        for i in range(1, n - 1):
            a, b, c = S.x[i - 1], S.x[i], S.x[i + 1]
            present = mk_and(mk_not(a.nan), mk_not(b.nan), mk_not(c.nan))
            if method == "average":
                d = zabs(b.v - (a.v + c.v) / 2)
            else:
                s1, s2 = b.v - a.v, c.v - b.v
                opposite = mk_or(mk_and(s1 > 0, s2 < 0), mk_and(s1 < 0, s2 > 0))
                d = mk_if(opposite, zmin(zabs(s1), zabs(s2)), rv(0))
            pairs = []
            if S.ft is not None:
                pairs.append(((d >= S.ft.v) if self.canary == "ge" else (d > S.ft.v), FAIL))
            if S.st is not None:
                pairs.append((d > S.st.v, SUSPECT))
            exp = cases(*pairs, default=GOOD)
            obl.append((f"interior flag[{i}] follows the spike magnitude", mk_or(mk_not(present), mk_eq(out.flags[i], exp))))
        return obl


def jobs(tier):
    N = 6 if tier == "quick" else 16
    out = []
    for method in ("average", "differential"):
        for n in range(1, N + 1):
            for has_s, has_f in ((True, True), (True, False), (False, True), (False, False)):
                if n > 4 and not (has_s and has_f):
                    continue
                out.append(Spike(n, method, has_s, has_f))
    out.append(Spike(3, None, True, True))           # default method
    out.append(Spike(4, "average", True, True, carrier="list"))
    out.append(Spike(3, "median", True, True))       # unknown method
    out.append(Spike(0 + 2, "Average", False, False))  # case matters
    out.append(Spike(3, "average", True, True, canary="ge"))
    out.append(Spike(3, "differential", True, True, canary="ge"))
    return out


FUNCTIONS = ["ioos_qc/qartod.py:spike_test"]
OUTSIDE = ["n=0 (belongs to C01)", "series longer than the bound", "negative thresholds", "values off grid G", "multi-dimensional inputs"]
ASSUMPTIONS = ["numpy.ma environment model validated per path against numpy 1.26",
               "on grid G, (a+c)/2, differences and |.| are exact in binary64 (Lemma E); the sign of a product of two "
               "differences is exact", "thresholds >= 0"]


def bounds(tier):
    return {"series_length": "1..6" if tier == "quick" else "1..16", "methods": ["average", "differential", "other -> ValueError"],
            "thresholds": "each present/absent, symbolic value >= 0 (incl. 0, equal, crossed)"}


LEVEL_TEXT = ("bounded symbolic model checking of the real spike_test source: all values, NaN placements and thresholds are "
              "symbolic, z3 proves every interior flag equals the property's spike-magnitude rule and end points are UNKNOWN")
LEVEL_NOTE = "bounds: n<=6/16, grid G, thresholds>=0; numpy.ma environment model validated by per-path witnesses"
TECHNIQUE = "symbolic execution of the real Python source over a modelled numpy + z3 (SMT, linear real arithmetic with sign cases)"
