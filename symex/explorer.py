"""Depth-first path explorer (DESIGN §3.1).

The function under analysis is re-executed from the start for every decision
prefix.  `decide(cond)` is called from `SBool.__bool__`; both sides are checked
for feasibility against the path condition plus the job's base assumptions.
"""
from __future__ import annotations

import time

import z3

_CUR = []


class Inconclusive(Exception):
    """Budget exhausted / solver said unknown.  Never counted as success."""


class PathAbort(BaseException):
    """Internal: abandon the current path (infeasible concretisation)."""


class BudgetExceeded(BaseException):
    """Internal: the job's time budget ran out in the middle of a path (a BaseException so that `except Exception` in the code
    under analysis cannot swallow it)."""


def current(optional=False):
    if not _CUR:
        if optional:
            return None
        raise RuntimeError("no active explorer (a symbolic value escaped its job)")
    return _CUR[-1]


class Path:
    __slots__ = ("pc", "decisions", "value", "exc", "side", "events", "poison", "extra")

    def __init__(self):
        self.pc = []
        self.decisions = []
        self.value = None
        self.exc = None
        self.side = []
        self.events = []
        self.poison = None
        self.extra = {}


class Explorer:
    def __init__(self, base=(), query_timeout_ms=20000, max_paths=4000, max_seconds=600, seed=0):
        self.solver = z3.Solver()
        self.solver.set("timeout", query_timeout_ms)
        if seed:
            self.solver.set("random_seed", seed)
        self.base = list(base)
        for b in self.base:
            self.solver.add(b)
        self.max_paths = max_paths
        self.max_seconds = max_seconds
        self.n_queries = 0
        self.solver_time = 0.0
        self.n_decisions = 0
        self.n_merges = 0
        self.n_paths = 0
        self._prefix = []
        self._path = None
        self._memo = None
        self._work = []
        self._deadline = None

    # -- solver helpers ------------------------------------------------------
    def check(self, *extra):
        t0 = time.time()
        if self._deadline is not None and t0 > self._deadline:
            raise BudgetExceeded()
        self.solver.push()
        for e in extra:
            self.solver.add(e)
        r = self.solver.check()
        self.solver.pop()
        self.solver_time += time.time() - t0
        self.n_queries += 1
        return r

    def model_of(self, *extra):
        t0 = time.time()
        if self._deadline is not None and t0 > self._deadline:
            raise BudgetExceeded()
        self.solver.push()
        for e in extra:
            self.solver.add(e)
        r = self.solver.check()
        m = self.solver.model() if r == z3.sat else None
        self.solver.pop()
        self.solver_time += time.time() - t0
        self.n_queries += 1
        return r, m

    # -- called from symbolic values ----------------------------------------------
    def decide(self, cond):
        p = self._path
        key = cond.get_id()
        if key in self._memo:
            return self._memo[key]
        if z3.is_not(cond):
            k2 = cond.arg(0).get_id()
            if k2 in self._memo:
                return not self._memo[k2]
        i = len(p.decisions)
        if i < len(self._prefix):
            val = self._prefix[i][0]
        else:
            rt = self.check(*p.pc, cond)
            rf = self.check(*p.pc, z3.Not(cond))
            if str(rt) == "unknown" or str(rf) == "unknown":
                self.poison(f"solver unknown while deciding a branch: {self.solver.reason_unknown()}")
                raise Inconclusive("solver unknown in decide")
            if rt == z3.sat and rf == z3.sat:
                val = True
                self._work.append(list(p.decisions) + [(False, None)])
            elif rt == z3.sat:
                val = True
            elif rf == z3.sat:
                val = False
            else:
                # path condition itself infeasible: cannot happen for a followed path
                raise PathAbort()
        p.decisions.append((val, None))
        self.n_decisions += 1
        p.pc.append(cond if val else z3.Not(cond))
        self._memo[key] = val
        return val

    def concretize(self, term, lo=-(2 ** 40), hi=2 ** 40):
        """Fork over the feasible integer values of `term`: model-guided enumeration (one value per path)."""
        p = self._path
        for _ in range(4096):
            i = len(p.decisions)
            if i < len(self._prefix):
                val, k = self._prefix[i]
            else:
                r, m = self.model_of(*p.pc)
                if r == z3.unsat:
                    raise PathAbort()
                if r != z3.sat:
                    self.poison("solver unknown while concretising a value")
                    raise Inconclusive("solver unknown in concretize")
                k = m.eval(term, model_completion=True).as_long()
                ro = self.check(*p.pc, term != k)
                if str(ro) == "unknown":
                    self.poison("solver unknown while concretising a value")
                    raise Inconclusive("solver unknown in concretize")
                if ro == z3.sat:
                    self._work.append(list(p.decisions) + [(False, k)])
                val = True
            p.decisions.append((val, k))
            self.n_decisions += 1
            p.pc.append(term == k if val else term != k)
            if val:
                return k
        self.poison(f"concretize: too many values for {term}")
        raise Inconclusive("concretize: too many values")

    def side_condition(self, cond, what):
        """`cond` must hold on every admissible input reaching this point (else model is out of its domain)."""
        if z3.is_true(cond):
            return
        self._path.side.append((cond, what))

    def event(self, kind, detail=None):
        self._path.events.append((kind, detail))

    def poison(self, why):
        if self._path is not None and self._path.poison is None:
            self._path.poison = why

    # -- driver --------------------------------------------------------------------
    def explore(self, fn):
        """Generator over completed paths of fn()."""
        self._work = [[]]
        t0 = time.time()
        self._deadline = t0 + 1.25 * self.max_seconds + 30
        _CUR.append(self)
        try:
            while self._work:
                if self.n_paths >= self.max_paths:
                    raise Inconclusive(f"path budget {self.max_paths} exhausted")
                if time.time() - t0 > self.max_seconds:
                    raise Inconclusive(f"time budget {self.max_seconds}s exhausted")
                self._prefix = self._work.pop()
                p = self._path = Path()
                self._memo = {}
                try:
                    p.value = fn()
                except PathAbort:
                    continue
                except BudgetExceeded:
                    raise Inconclusive(f"time budget {self.max_seconds}s exhausted inside a path")
                except Inconclusive:
                    raise
                except Exception as e:  # an exception raised by the code under analysis (or the model)
                    p.exc = e
                self.n_paths += 1
                yield p
        finally:
            _CUR.pop()
            self._path = None
            self._deadline = None
