"""Calendar attributes of a symbolic time (whole seconds since epoch) as piecewise z3 terms.

The breakpoints are derived at import time from the *installed pandas* over the bounded date
range of DESIGN §4 (a precomputed table, not a re-derivation of the Gregorian calendar), and the
resulting encoding is validated against pandas for every day in the range by `self_check()`.
"""
from __future__ import annotations

import z3

from .values import mk_if

RANGE_START = "2018-01-01"
RANGE_END = "2025-01-01"  # exclusive
DAY = 86400

_tab = None


def _table():
    global _tab
    if _tab is None:
        import pandas as pd
        days = pd.date_range(RANGE_START, RANGE_END, freq="D", inclusive="left")
        d0 = int(days[0].value // 10 ** 9 // DAY)
        iso = days.isocalendar()
        _tab = {
            "d0": d0,
            "n": len(days),
            "year": [int(x) for x in days.year],
            "month": [int(x) for x in days.month],
            "day": [int(x) for x in days.day],
            "dayofyear": [int(x) for x in days.dayofyear],
            "dayofweek": [int(x) for x in days.dayofweek],
            "quarter": [int(x) for x in days.quarter],
            "week": [int(x) for x in iso.week],
        }
    return _tab


def t_lo():
    return _table()["d0"] * DAY


def t_hi():
    t = _table()
    return (t["d0"] + t["n"]) * DAY


def _segments(vals):
    """[(first_day_index, value)] for each maximal run of equal values."""
    segs = []
    for i, v in enumerate(vals):
        if not segs or segs[-1][1] != v:
            segs.append((i, v))
    return segs


def _tree(s, segs, d0, leaf):
    """Balanced If-tree: value of the segment containing time s."""
    if len(segs) == 1:
        return leaf(segs[0])
    mid = len(segs) // 2
    bp = (d0 + segs[mid][0]) * DAY
    return mk_if(s < bp, _tree(s, segs[:mid], d0, leaf), _tree(s, segs[mid:], d0, leaf))


def attr(name, s):
    """z3 Int term for the calendar attribute `name` of the time `s` (z3 Int seconds)."""
    t = _table()
    d0 = t["d0"]
    if z3.is_int_value(s):
        sv = s.as_long()
        di = sv // DAY - d0
        if 0 <= di < t["n"]:
            if name == "hour":
                return z3.IntVal((sv % DAY) // 3600)
            if name in t:
                return z3.IntVal(t[name][di])
    if name in ("year", "month", "quarter"):
        return _tree(s, _segments(t[name]), d0, lambda seg: z3.IntVal(seg[1]))
    d = s / DAY  # floor division (positive divisor)
    if name == "dayofweek":
        return (d + 3) % 7
    if name == "day":
        segs = _segments(list(zip(t["year"], t["month"])))
        return d - _tree(s, segs, d0, lambda seg: z3.IntVal(d0 + seg[0])) + 1
    if name == "dayofyear":
        segs = _segments(t["year"])
        return d - _tree(s, segs, d0, lambda seg: z3.IntVal(d0 + seg[0])) + 1
    if name == "week":
        # runs of ISO-week-years: a new run starts on the Monday of week 1; the head of the range
        # (2018-01-01 is a Monday of week 1) is a run start as well.
        wk, dow = t["week"], t["dayofweek"]
        starts = [i for i in range(t["n"]) if wk[i] == 1 and dow[i] == 0]
        assert starts and starts[0] == 0, "range must start on the Monday of ISO week 1"
        segs = [(i, i) for i in starts]
        start_day = _tree(s, segs, d0, lambda seg: z3.IntVal(d0 + seg[0]))
        return (d - start_day) / 7 + 1
    if name == "hour":
        return (s - d * DAY) / 3600
    raise AttributeError(name)


def self_check():
    """Validate the encoding against pandas on every day (midnight and 23:59:59) of the range."""
    t = _table()
    s = z3.Int("cal!s")
    names = ["year", "month", "day", "dayofyear", "dayofweek", "quarter", "week"]
    terms = {n: attr(n, s) for n in names}
    checked = 0
    for di in range(t["n"]):
        for off in (0, DAY - 1):
            sv = z3.IntVal((t["d0"] + di) * DAY + off)
            for n in names:
                got = z3.simplify(z3.substitute(terms[n], (s, sv))).as_long()
                if got != t[n][di]:
                    raise AssertionError(f"calendar model mismatch {n} day {di}: {got} != {t[n][di]}")
                checked += 1
    return checked
