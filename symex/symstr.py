"""Bounded symbolic strings (DESIGN §3.2) and the two regex operations cf_safe_name uses."""
from __future__ import annotations

import re as _re

import z3

from . import explorer as _ex
from .values import FALSE, TRUE, SBool, Sym, Unsupported, _FMT, _register_fmt, mk_and, mk_eq, mk_if, mk_not, mk_or

MAXCP = 0x10FFFF


class SStr(Sym):
    """string of symbolic length <= L: chars[i] is a z3 Int code point, meaningful for i < length"""

    __slots__ = ("chars", "length")

    def __init__(self, chars, length):
        self.chars, self.length = list(chars), length

    def _short(self):
        return f"len={self.length} chars={self.chars}"

    def __format__(self, spec):
        if spec:
            raise Unsupported("format spec on a symbolic string")
        return _register_fmt(self)

    def __str__(self):
        return _register_fmt(self)

    __hash__ = object.__hash__

    def __len__(self):
        return _ex.current().concretize(self.length)

    def __eq__(self, o):
        o = to_segs(o)
        return SBool(segs_equal([self], o))

    def __ne__(self, o):
        return ~(self == o)


def to_segs(x):
    """python str with embedded placeholders / SStr / SCat -> list of segments (str | SStr)"""
    if isinstance(x, SCat):
        return list(x.segs)
    if isinstance(x, SStr):
        return [x]
    if isinstance(x, str):
        out = []
        rest = x
        while rest:
            i = rest.find("⟦sym")
            if i < 0:
                out.append(rest)
                break
            j = rest.find("⟧", i)
            key = rest[i:j + 1]
            if i:
                out.append(rest[:i])
            v = _FMT.get(key)
            if v is None:
                raise Unsupported("unknown string placeholder")
            if isinstance(v, (SStr, SCat)):
                out.extend(to_segs(v))
            else:
                raise Unsupported(f"non-string symbolic value formatted into a string: {type(v).__name__}")
            rest = rest[j + 1:]
        return out
    raise TypeError(type(x))


class SCat(Sym):
    """concatenation of concrete and symbolic segments"""
    __slots__ = ("segs",)

    def __init__(self, segs):
        self.segs = list(segs)

    def _short(self):
        return repr(self.segs)

    def __format__(self, spec):
        return _register_fmt(self)

    __hash__ = object.__hash__

    def __eq__(self, o):
        return SBool(segs_equal(self.segs, to_segs(o)))

    def __ne__(self, o):
        return ~(self == o)


def seg_cells(segs):
    """-> list of (present: z3 Bool, codepoint: z3 Int) in order (symbolic segments contribute L guarded cells)"""
    cells = []
    for s in segs:
        if isinstance(s, str):
            cells += [(TRUE, z3.IntVal(ord(c))) for c in s]
        else:
            cells += [(z3.IntVal(i) < s.length, s.chars[i]) for i in range(len(s.chars))]
    return cells


def compact(segs, width):
    """(length term, [codepoint term at position p for p < width]) of the concatenation"""
    cells = seg_cells(segs)
    length = z3.IntVal(0)
    at = [z3.IntVal(0)] * width
    for pres, cp in cells:
        for p in range(width):
            at[p] = mk_if(mk_and(pres, mk_eq(length, z3.IntVal(p))), cp, at[p])
        length = length + mk_if(pres, z3.IntVal(1), z3.IntVal(0))
    return length, at


def max_width(segs):
    return sum(len(s) if isinstance(s, str) else len(s.chars) for s in segs)


def segs_equal(a, b):
    w = max(max_width(a), max_width(b))
    la, ca = compact(a, w)
    lb, cb = compact(b, w)
    return mk_and(mk_eq(la, lb), *[mk_or(z3.IntVal(p) >= la, mk_eq(ca[p], cb[p])) for p in range(w)])


# ----------------------------------------------------------------------------
# the regex subset
# ----------------------------------------------------------------------------

_UNI = {}


def _unicode_ranges(kind):
    """code point ranges of the unicode-aware escapes of python's `re` on str patterns: d (Nd), w (alnum or '_'), s"""
    if kind not in _UNI:
        import sys
        import unicodedata
        if kind == "d":
            pred = lambda c: unicodedata.category(c) == "Nd"
        elif kind == "w":
            pred = lambda c: c.isalnum() or c == "_"
        else:
            pred = lambda c: c.isspace() or c in "\x1c\x1d\x1e\x1f"
        ranges, start = [], None
        for cp in range(sys.maxunicode + 1):
            if 0xD800 <= cp <= 0xDFFF:
                ok = False
            else:
                ok = pred(chr(cp))
            if ok and start is None:
                start = cp
            elif not ok and start is not None:
                ranges.append((start, cp - 1))
                start = None
        if start is not None:
            ranges.append((start, sys.maxunicode))
        _UNI[kind] = ranges
    return _UNI[kind]


def _complement(ranges):
    out, prev = [], 0
    for lo, hi in sorted(ranges):
        if lo > prev:
            out.append((prev, lo - 1))
        prev = max(prev, hi + 1)
    if prev <= MAXCP:
        out.append((prev, MAXCP))
    return out


def _escape_ranges(ch):
    if ch in "dws":
        return list(_unicode_ranges(ch))
    if ch in "DWS":
        return _complement(_unicode_ranges(ch.lower()))
    if ch in ".^$*+?{}[]\\|()-/":
        return [(ord(ch), ord(ch))]
    raise Unsupported(f"regex escape \\{ch}")


def _parse(pattern):
    """supported: optional '^' anchor followed by ONE character set: '[...]' (ranges, negation, \\d \\w \\s escapes) or a
    single escape such as '\\W'"""
    p = pattern
    anchored = p.startswith("^")
    if anchored:
        p = p[1:]
    if len(p) == 2 and p[0] == "\\":
        return anchored, False, _escape_ranges(p[1])
    if not (p.startswith("[") and p.endswith("]")) or len(p) < 3:
        raise Unsupported(f"regex {pattern!r}")
    body = p[1:-1]
    neg = body.startswith("^")
    if neg:
        body = body[1:]
    ranges = []
    i = 0
    while i < len(body):
        c = body[i]
        if c == "\\":
            if i + 1 >= len(body):
                raise Unsupported(f"regex {pattern!r}")
            ranges += _escape_ranges(body[i + 1])
            i += 2
            continue
        if c == "]":
            raise Unsupported(f"regex {pattern!r}")
        if i + 2 < len(body) and body[i + 1] == "-" and body[i + 2] != "\\":
            ranges.append((ord(c), ord(body[i + 2])))
            i += 3
        else:
            ranges.append((ord(c), ord(c)))
            i += 1
    return anchored, neg, ranges


def in_class(cp, ranges, neg=False):
    r = mk_or(*[mk_and(cp >= lo, cp <= hi) if lo != hi else mk_eq(cp, z3.IntVal(lo)) for lo, hi in ranges])
    return mk_not(r) if neg else r


class _Match:
    pass


def match(pattern, string, flags=0):
    if isinstance(string, str) and "⟦sym" not in string:
        return _re.match(pattern, string, flags)
    if flags & ~_re.UNICODE:
        raise Unsupported("regex flags")
    anchored, neg, ranges = _parse(pattern)
    segs = to_segs(string)
    length, at = compact(segs, 1)
    cond = mk_and(length >= 1, in_class(at[0], ranges, neg))
    return _Match() if bool(SBool(cond)) else None


def sub(pattern, repl, string, count=0, flags=0):
    if isinstance(string, str) and "⟦sym" not in string:
        return _re.sub(pattern, repl, string, count, flags)
    if flags & ~_re.UNICODE:
        raise Unsupported("regex flags")
    anchored, neg, ranges = _parse(pattern)
    if anchored or count or len(repl) != 1:
        raise Unsupported("re.sub form")
    out = []
    for s in to_segs(string):
        if isinstance(s, str):
            out.append(_re.sub(pattern, repl, s))
        else:
            out.append(SStr([mk_if(in_class(c, ranges, neg), z3.IntVal(ord(repl)), c) for c in s.chars], s.length))
    return SCat(out)


class SymPattern:
    """re.compile(...) result usable on symbolic strings"""

    def __init__(self, pattern, flags=0):
        self.pattern, self.flags = pattern, flags
        self._real = _re.compile(pattern, flags)

    def match(self, string, *a):
        return match(self.pattern, string, self.flags)

    def sub(self, repl, string, count=0):
        return sub(self.pattern, repl, string, count, self.flags)

    def __getattr__(self, name):
        return getattr(self._real, name)


def compile(pattern, flags=0):
    return SymPattern(pattern, flags)


escape = _re.escape
ASCII = A = _re.ASCII
IGNORECASE = I = _re.IGNORECASE
UNICODE = U = _re.UNICODE
