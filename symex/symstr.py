"""Bounded symbolic strings (DESIGN §3.2) and the two regex operations cf_safe_name uses."""
from __future__ import annotations

import re as _re

import z3

from . import explorer as _ex
from .values import FALSE, TRUE, SBool, Sym, Unsupported, _FMT, _register_fmt, mk_and, mk_eq, mk_if, mk_not, mk_or

MAXCP = 0x10FFFF


class SStr(Sym):
    """string of symbolic length <= L: chars[i] is a z3 Int code point, meaningful for i < length"""

    __slots__ = ("chars", "length")

    def __init__(self, chars, length):
        self.chars, self.length = list(chars), length

    def _short(self):
        return f"len={self.length} chars={self.chars}"

    def __format__(self, spec):
        if spec:
            raise Unsupported("format spec on a symbolic string")
        return _register_fmt(self)

    def __str__(self):
        return _register_fmt(self)

    __hash__ = object.__hash__

    def __len__(self):
        return _ex.current().concretize(self.length)

    def __eq__(self, o):
        o = to_segs(o)
        return SBool(segs_equal([self], o))

    def __ne__(self, o):
        return ~(self == o)


def to_segs(x):
    """python str with embedded placeholders / SStr / SCat -> list of segments (str | SStr)"""
    if isinstance(x, SCat):
        return list(x.segs)
    if isinstance(x, SStr):
        return [x]
    if isinstance(x, str):
        out = []
        rest = x
        while rest:
            i = rest.find("⟦sym")
            if i < 0:
                out.append(rest)
                break
            j = rest.find("⟧", i)
            key = rest[i:j + 1]
            if i:
                out.append(rest[:i])
            v = _FMT.get(key)
            if v is None:
                raise Unsupported("unknown string placeholder")
            if isinstance(v, (SStr, SCat)):
                out.extend(to_segs(v))
            else:
                raise Unsupported(f"non-string symbolic value formatted into a string: {type(v).__name__}")
            rest = rest[j + 1:]
        return out
    raise TypeError(type(x))


class SCat(Sym):
    """concatenation of concrete and symbolic segments"""
    __slots__ = ("segs",)

    def __init__(self, segs):
        self.segs = list(segs)

    def _short(self):
        return repr(self.segs)

    def __format__(self, spec):
        return _register_fmt(self)

    __hash__ = object.__hash__

    def __eq__(self, o):
        return SBool(segs_equal(self.segs, to_segs(o)))

    def __ne__(self, o):
        return ~(self == o)


def seg_cells(segs):
    """-> list of (present: z3 Bool, codepoint: z3 Int) in order (symbolic segments contribute L guarded cells)"""
    cells = []
    for s in segs:
        if isinstance(s, str):
            cells += [(TRUE, z3.IntVal(ord(c))) for c in s]
        else:
            cells += [(z3.IntVal(i) < s.length, s.chars[i]) for i in range(len(s.chars))]
    return cells


def compact(segs, width):
    """(length term, [codepoint term at position p for p < width]) of the concatenation"""
    cells = seg_cells(segs)
    length = z3.IntVal(0)
    at = [z3.IntVal(0)] * width
    for pres, cp in cells:
        for p in range(width):
            at[p] = mk_if(mk_and(pres, mk_eq(length, z3.IntVal(p))), cp, at[p])
        length = length + mk_if(pres, z3.IntVal(1), z3.IntVal(0))
    return length, at


def max_width(segs):
    return sum(len(s) if isinstance(s, str) else len(s.chars) for s in segs)


def segs_equal(a, b):
    w = max(max_width(a), max_width(b))
    la, ca = compact(a, w)
    lb, cb = compact(b, w)
    return mk_and(mk_eq(la, lb), *[mk_or(z3.IntVal(p) >= la, mk_eq(ca[p], cb[p])) for p in range(w)])


# ----------------------------------------------------------------------------
# the regex subset
# ----------------------------------------------------------------------------

_CLASS = _re.compile(r"^(\^?)\[(\^?)((?:[^\]\\]|\\.)+)\]$")


def _parse(pattern):
    m = _CLASS.match(pattern)
    if not m:
        raise Unsupported(f"regex {pattern!r}")
    anchored, neg, body = m.group(1) == "^", m.group(2) == "^", m.group(3)
    ranges = []
    i = 0
    while i < len(body):
        c = body[i]
        if c == "\\":
            raise Unsupported(f"regex escape in {pattern!r}")
        if i + 2 < len(body) and body[i + 1] == "-":
            ranges.append((ord(c), ord(body[i + 2])))
            i += 3
        else:
            ranges.append((ord(c), ord(c)))
            i += 1
    return anchored, neg, ranges


def in_class(cp, ranges, neg=False):
    r = mk_or(*[mk_and(cp >= lo, cp <= hi) if lo != hi else mk_eq(cp, z3.IntVal(lo)) for lo, hi in ranges])
    return mk_not(r) if neg else r


class _Match:
    pass


def match(pattern, string, flags=0):
    if isinstance(string, str) and "⟦sym" not in string:
        return _re.match(pattern, string, flags)
    anchored, neg, ranges = _parse(pattern)
    segs = to_segs(string)
    length, at = compact(segs, 1)
    cond = mk_and(length >= 1, in_class(at[0], ranges, neg))
    return _Match() if bool(SBool(cond)) else None


def sub(pattern, repl, string, count=0, flags=0):
    if isinstance(string, str) and "⟦sym" not in string:
        return _re.sub(pattern, repl, string, count, flags)
    anchored, neg, ranges = _parse(pattern)
    if anchored or count or len(repl) != 1:
        raise Unsupported("re.sub form")
    out = []
    for s in to_segs(string):
        if isinstance(s, str):
            out.append(_re.sub(pattern, repl, s))
        else:
            out.append(SStr([mk_if(in_class(c, ranges, neg), z3.IntVal(ord(repl)), c) for c in s.chars], s.length))
    return SCat(out)


compile = _re.compile
escape = _re.escape
