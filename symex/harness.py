"""Job runner: symbolic execution of a real ioos_qc entry point, obligations, witness validation against the
real stack, replay of counterexamples, evidence (DESIGN §5)."""
from __future__ import annotations

import json
import math
import os
import sys
import time
import traceback
import warnings
from fractions import Fraction

import numpy as np
import z3

from . import explorer as _ex
from . import symnp as snp
from .loader import Loader
from .values import (FALSE, TRUE, MaskedConstant, SBool, SDelta, SFloat, SInt, STime, Sym, Unsupported, _numval,
                     mk_and, mk_eq, mk_not, mk_or, rv)

VERIF = os.path.dirname(os.path.dirname(os.path.abspath(__file__)))
GRID = 1024          # values are multiples of 2^-10 (DESIGN §4, grid G)
VMAX = 2 ** 20


# ----------------------------------------------------------------------------
# symbolic input declaration
# ----------------------------------------------------------------------------

class Vars:
    """Declares the symbolic inputs of a job; collects admissibility constraints and grid side-constraints."""

    def __init__(self):
        self.assumptions = []     # admissible(inputs)
        self.grid = []            # extra constraints used only when a *model* is requested (exact float inputs)
        self.names = []
        self.terms = []           # (z3 term, lo, hi) of every declared numeric input (used by the fallback probe)
        self.bools = []

    def assume(self, *conds):
        for c in conds:
            if isinstance(c, SBool):
                c = c.b
            self.assumptions.append(c)

    def float(self, name, nan=False, lo=-VMAX, hi=VMAX, menu=None):
        v = z3.Real(name)
        self.names.append(name)
        self.assumptions += [v >= lo, v <= hi]
        self.terms.append((v, lo, hi))
        k = z3.Int(name + "!k")
        self.grid.append(v * GRID == z3.ToReal(k))
        if menu is not None:
            # only used when a concrete model is requested (keeps CEGAR over the geodesic finite)
            self.grid.append(z3.Or(*[v == rv(m) for m in menu]))
        n = z3.Bool(name + "!nan") if nan else FALSE
        if nan:
            self.bools.append(n)
        return SFloat(n, v)

    def floats(self, prefix, n, nan=False, **kw):
        return [self.float(f"{prefix}{i}", nan=nan, **kw) for i in range(n)]

    def int(self, name, lo=None, hi=None):
        v = z3.Int(name)
        self.names.append(name)
        if lo is not None:
            self.assumptions.append(v >= lo)
        if hi is not None:
            self.assumptions.append(v <= hi)
        if lo is not None and hi is not None:
            self.terms.append((v, lo, hi))
        return SInt(v)

    def bool(self, name):
        self.names.append(name)
        b = z3.Bool(name)
        self.bools.append(b)
        return SBool(b)

    def time(self, name, nat=False, frac=False, den=8):
        from . import calendar_model as cal
        s = z3.Int(name)
        self.names.append(name)
        self.assumptions += [s >= cal.t_lo(), s < cal.t_hi()]
        self.terms.append((s, cal.t_lo(), cal.t_hi() - 1))
        f = None
        if frac:
            # sub-second part: any real in [0,1) for the proof; a multiple of 1/den s when a model is replayed (1/8 s is exact both in
            # ns and as a binary64 number of seconds; den=10**9 allows every ns for jobs without float carriers)
            f = z3.Real(name + "!frac")
            self.assumptions += [f >= 0, f < 1]
            k = z3.Int(name + "!fk")
            self.grid.append(f * den == z3.ToReal(k))
        return STime(s, z3.Bool(name + "!nat") if nat else FALSE, f)

    def string(self, name, maxlen, alphabet=None):
        """bounded symbolic string; code points restricted to `alphabet` (list of (lo, hi) ranges) if given"""
        from .symstr import SStr
        ln = z3.Int(name + "!len")
        self.names.append(name)
        self.assumptions += [ln >= 0, ln <= maxlen]
        chars = []
        for i in range(maxlen):
            c = z3.Int(f"{name}!c{i}")
            if alphabet is None:
                self.assumptions += [c >= 1, c <= 0x10FFFF, z3.Or(c < 0xD800, c > 0xDFFF)]
            else:
                self.assumptions.append(z3.Or(*[z3.And(c >= lo, c <= hi) for lo, hi in alphabet]))
            chars.append(c)
        return SStr(chars, ln)

    def times_increasing(self, prefix, n, min_step=1, max_step=2 ** 22, frac=False):
        ts = [self.time(f"{prefix}{i}", frac=frac) for i in range(n)]
        for a, b in zip(ts, ts[1:]):
            if frac:
                # whole seconds elapsed = floor of the difference; keep it >= min_step
                d = (b - a)
                self.assumptions += [d.s >= min_step, d.s <= max_step]
                self.terms.append((d.s, min_step, max_step))
            else:
                self.assumptions += [b.s - a.s >= min_step, b.s - a.s <= max_step]
                self.terms.append((b.s - a.s, min_step, max_step))
        return ts


# ----------------------------------------------------------------------------
# model -> concrete values
# ----------------------------------------------------------------------------

def _ev(model, term):
    return model.eval(term, model_completion=True)


def concretize(x, model):
    """Map a structure of symbolic scalars to concrete python/numpy values under a z3 model."""
    if isinstance(x, SFloat):
        if z3.is_true(_ev(model, x.nan)):
            return float("nan")
        q = _numval(_ev(model, x.v))
        f = float(q)
        return f
    if isinstance(x, SInt):
        return _ev(model, x.v).as_long()
    if isinstance(x, SBool):
        return bool(z3.is_true(_ev(model, x.b)))
    if isinstance(x, STime):
        if z3.is_true(_ev(model, x.nat)):
            return np.datetime64("NaT", "ns")
        base = np.datetime64(_ev(model, x.s).as_long(), "s").astype("datetime64[ns]")
        if getattr(x, "f", None) is not None:
            q = _numval(_ev(model, x.f))
            base = base + np.timedelta64(int(q * 10 ** 9), "ns")
        return base
    if isinstance(x, SDelta):
        if z3.is_true(_ev(model, x.nat)):
            return np.timedelta64("NaT", "ns")
        base = np.timedelta64(_ev(model, x.s).as_long(), "s").astype("timedelta64[ns]")
        if getattr(x, "f", None) is not None:
            base = base + np.timedelta64(int(_numval(_ev(model, x.f)) * 10 ** 9), "ns")
        return base
    from .symstr import SStr
    if isinstance(x, SStr):
        n = _ev(model, x.length).as_long()
        return "".join(chr(_ev(model, c).as_long()) for c in x.chars[:n])
    if isinstance(x, dict):
        return {k: concretize(v, model) for k, v in x.items()}
    if isinstance(x, list):
        return [concretize(v, model) for v in x]
    if isinstance(x, tuple):
        return tuple(concretize(v, model) for v in x)
    if isinstance(x, Struct):
        return Struct(**{k: concretize(v, model) for k, v in vars(x).items()})
    return x


def exact_on_grid(x, model):
    """True iff every float in the structure is exactly representable (model was taken on the grid)."""
    if isinstance(x, SFloat):
        if z3.is_true(_ev(model, x.nan)):
            return True
        q = _numval(_ev(model, x.v))
        return Fraction(float(q)) == q
    if isinstance(x, dict):
        return all(exact_on_grid(v, model) for v in x.values())
    if isinstance(x, (list, tuple)):
        return all(exact_on_grid(v, model) for v in x)
    if isinstance(x, Struct):
        return all(exact_on_grid(v, model) for v in vars(x).values())
    return True


class Struct:
    def __init__(self, **kw):
        self.__dict__.update(kw)

    def __repr__(self):
        return "Struct(" + ", ".join(f"{k}={v!r}" for k, v in vars(self).items()) + ")"


def jsonable(x):
    if isinstance(x, float):
        if math.isnan(x):
            return "NaN"
        return x
    if isinstance(x, (np.floating,)):
        return jsonable(float(x))
    if isinstance(x, (np.integer,)):
        return int(x)
    if isinstance(x, (np.bool_,)):
        return bool(x)
    if isinstance(x, (np.datetime64, np.timedelta64)):
        return str(x)
    if isinstance(x, np.ndarray):
        if isinstance(x, np.ma.MaskedArray):
            return {"masked_data": jsonable(np.ma.getdata(x).tolist()), "mask": jsonable(np.ma.getmaskarray(x).tolist())}
        return jsonable(x.tolist())
    if isinstance(x, dict):
        return {str(k): jsonable(v) for k, v in x.items()}
    if isinstance(x, (list, tuple)):
        return [jsonable(v) for v in x]
    if isinstance(x, Struct):
        return {k: jsonable(v) for k, v in vars(x).items()}
    if isinstance(x, (int, str, bool)) or x is None:
        return x
    if isinstance(x, Sym):
        return repr(x)
    return repr(x)


# ----------------------------------------------------------------------------
# carrier kits: build the arguments of a call either symbolically or for the real stack
# ----------------------------------------------------------------------------

class SymKit:
    sym = True

    def farray(self, vals, owner="caller"):
        return snp.ndarray.from_list(vals, "float64", owner=owner)

    def flist(self, vals):
        return list(vals)

    def ftuple(self, vals):
        return tuple(vals)

    def marray(self, vals, mask, owner="caller"):
        d = snp.ndarray.from_list(vals, "float64", owner=owner)
        m = snp.ndarray.from_list(mask, "bool", owner=owner)
        return snp.MaskedArray(d, m)

    def iarray(self, vals, dt="int64", owner="caller"):
        return snp.ndarray.from_list(vals, dt, owner=owner)

    def barray(self, vals, owner="caller"):
        return snp.ndarray.from_list(vals, "bool", owner=owner)

    def tarray(self, vals, unit="ns", owner="caller"):
        return snp.ndarray.from_list(vals, f"datetime64[{unit}]", owner=owner)

    def epoch_array(self, vals, owner="caller"):
        """times as seconds since the epoch: int64 when whole, float64 when they carry a sub-second part"""
        if any(getattr(t, "f", None) is not None for t in vals):
            return snp.ndarray.from_list([SFloat(FALSE, z3.ToReal(t.s) + (t.f if t.f is not None else 0)) for t in vals],
                                         "float64", owner=owner)
        return snp.ndarray.from_list([SInt(t.s) for t in vals], "int64", owner=owner)

    def scalar(self, v):
        return v

    def tnone(self, v):
        return v

    def ttuple(self, vals):
        return tuple(vals)

    def readonly(self, arr):
        arr.setflags(write=False)
        return arr


class RealKit:
    sym = False

    def farray(self, vals, owner=None):
        return np.array(vals, dtype=np.float64)

    def flist(self, vals):
        return [None if (isinstance(v, float) and math.isnan(v)) else v for v in vals]

    def ftuple(self, vals):
        return tuple(self.flist(vals))

    def marray(self, vals, mask, owner=None):
        return np.ma.MaskedArray(np.array(vals, dtype=np.float64), mask=np.array(mask, dtype=bool))

    def iarray(self, vals, dt="int64", owner=None):
        return np.array(vals, dtype=dt)

    def barray(self, vals, owner=None):
        return np.array(vals, dtype=bool)

    def tarray(self, vals, unit="ns", owner=None):
        return np.array(vals, dtype=f"datetime64[{unit}]")

    def epoch_array(self, vals, owner=None):
        ns = [int(np.datetime64(v, "ns").astype("int64")) for v in vals]
        if any(x % 10 ** 9 for x in ns):
            return np.array([x / 10 ** 9 for x in ns], dtype="float64")
        return np.array([x // 10 ** 9 for x in ns], dtype="int64")

    def tnone(self, v):
        return None if np.isnat(v) else v

    def ttuple(self, vals):
        import pandas as pd
        return tuple(pd.Timestamp(v) for v in vals)

    def readonly(self, arr):
        arr.setflags(write=False)
        return arr

    def scalar(self, v):
        return v


# ----------------------------------------------------------------------------
# outcomes
# ----------------------------------------------------------------------------

class Outcome:
    """Normalised result of a call: exception, or a flag vector (z3 Int terms) with a mask (z3 Bool terms)."""

    def __init__(self, exc=None, flags=None, mask=None, shape=None, dtype=None, extra=None):
        self.exc = exc
        self.flags = flags
        self.mask = mask
        self.shape = shape
        self.dtype = dtype
        self.extra = extra or {}

    @property
    def raised(self):
        return self.exc is not None

    def exc_name(self):
        return type(self.exc).__name__ if self.exc is not None else None

    def describe(self, model=None):
        if self.raised:
            return {"raises": self.exc_name(), "msg": str(self.exc)[:200]}
        fl = self.flags
        if model is not None:
            fl = [_ev(model, f) for f in fl]
        out = {"flags": [int(f.as_long()) if z3.is_int_value(f) else str(f)[:80] for f in fl], "shape": list(self.shape or ())}
        mk = self.mask
        if mk is not None:
            if model is not None:
                mk = [_ev(model, m) for m in mk]
            if any(not z3.is_false(m) for m in mk):
                out["mask"] = [True if z3.is_true(m) else (False if z3.is_false(m) else str(m)[:40]) for m in mk]
        return out


def _term_of_flag(x):
    if isinstance(x, SInt):
        return x.v
    if isinstance(x, SBool):
        return x._as_int().v
    if isinstance(x, SFloat):
        # flags stored in a float array (e.g. np.ma.masked_array([])); compare as integers when integral
        return z3.ToInt(x.v)
    if isinstance(x, (int, np.integer, bool, np.bool_)):
        return z3.IntVal(int(x))
    if isinstance(x, (float, np.floating)):
        return z3.IntVal(int(x))
    raise Unsupported(f"flag value of type {type(x).__name__}")


def observe(result):
    """Turn a returned array (symbolic or real) into an Outcome."""
    if isinstance(result, snp.ndarray):
        flags = [_term_of_flag(x) for x in result.a.flat]
        if result._is_masked and result._mask is not None:
            mask = [m.b for m in result._mask.a.flat]
        else:
            mask = [FALSE] * len(flags)
        return Outcome(flags=flags, mask=mask, shape=tuple(result.a.shape), dtype=str(result._dt))
    if not isinstance(result, np.ndarray) and hasattr(result, "compute") and hasattr(result, "dask"):
        result = result.compute()       # a lazy dask result: compare the computed flags
    if isinstance(result, np.ndarray):
        data = np.ma.getdata(result)
        flags = [_term_of_flag(x) for x in data.flat]
        m = np.ma.getmaskarray(result)
        mask = [TRUE if b else FALSE for b in m.flat]
        return Outcome(flags=flags, mask=mask, shape=tuple(result.shape), dtype=str(result.dtype))
    raise Unsupported(f"cannot observe result of type {type(result).__name__}")


def _is_numeral(t):
    return z3.is_int_value(t) or z3.is_rational_value(t)


def same_outcome(sym_out, real_out, model):
    """Compare the symbolic outcome evaluated under `model` with the real outcome.  -> (ok, detail)"""
    if sym_out.raised or real_out.raised:
        if sym_out.raised and real_out.raised:
            a, b = type(sym_out.exc), type(real_out.exc)
            if a is b or issubclass(a, b) or issubclass(b, a):
                return True, None
            return False, f"exception type differs: model {a.__name__} vs real {b.__name__}: {real_out.exc}"
        return False, f"model {sym_out.describe(model)} vs real {real_out.describe()}"
    if tuple(sym_out.shape) != tuple(real_out.shape):
        return False, f"shape differs: model {sym_out.shape} vs real {real_out.shape}"
    sm = [z3.is_true(_ev(model, m)) for m in sym_out.mask]
    rm = [z3.is_true(m) for m in real_out.mask]
    if sm != rm:
        return False, f"mask differs: model {sm} vs real {rm}"
    for i, (f, g) in enumerate(zip(sym_out.flags, real_out.flags)):
        if sm[i]:
            continue
        fv = z3.simplify(_ev(model, f))
        g = z3.simplify(g)
        if sym_out.extra.get("approx") and _is_numeral(fv) and _is_numeral(g):
            a, b = _numval(fv), _numval(g)
            if abs(a - b) <= Fraction(1, 10 ** 9) * (1 + abs(a)):
                continue
        if not fv.eq(g) and not (_is_numeral(fv) and _is_numeral(g) and _numval(fv) == _numval(g)):
            return False, f"value[{i}] differs: model {fv} vs real {g}"
    return True, None


# ----------------------------------------------------------------------------
# Job
# ----------------------------------------------------------------------------

class Job:
    """One bounded verification job.  Subclasses / instances provide:

    name      : unique label
    declare(V): -> S  (structure of symbolic inputs; V collects assumptions)
    invoke(mods, S, K): call the entry point (symbolic or real) -> raw result
    holds(S, out): -> list of (label, z3 Bool) that must all hold for Outcome `out`
    """

    name = "job"
    prop = "C00"
    functions = ()          # (relpath, funcname) encoded
    max_paths = 4000
    max_seconds = 900
    query_timeout_ms = 60000
    validate_witnesses = True
    check_purity = False     # C01: caller buffers untouched, no havoc dependence
    expect_canary_sat = None  # set by canary jobs

    def declare(self, V):
        raise NotImplementedError

    def invoke(self, mods, S, K):
        raise NotImplementedError

    def holds(self, S, out):
        raise NotImplementedError

    def observe(self, result):
        return observe(result)

    def known(self, S):
        """list of (finding_id, z3 Bool predicate on inputs) excluded from the obligation (known findings)."""
        return []

    def params(self):
        return {}


class ModuleState:
    """Module-level mutable state (dict / list / set globals) of the ioos_qc modules, snapshotted when a module is loaded and put
    back before every execution - symbolic path or real replay - so that each starts from the state a fresh import gives.
    Without this a cache or a stack left behind by one path (or by another job run earlier in the same worker process) leaks into
    the next; call histories are exercised on purpose, inside one execution, by the jobs that are about them (C01, C20)."""

    def __init__(self):
        self.snap = {}
        self.mods = {}

    def snapshot(self, name, mod):
        import copy
        if name in self.snap or mod is None:
            return
        keep = {}
        for k, v in list(vars(mod).items()):
            if k.startswith("__") or type(v) not in (dict, list, set):
                continue
            try:
                keep[k] = copy.deepcopy(v)
            except Exception:
                pass
        self.snap[name] = keep
        self.mods[name] = mod

    def reset(self):
        import copy
        for name, keep in self.snap.items():
            d = vars(self.mods[name])
            for k, v0 in keep.items():
                cur = d.get(k)
                fresh = copy.deepcopy(v0)
                if type(cur) is not type(v0):
                    d[k] = fresh
                elif isinstance(cur, list):
                    cur[:] = fresh
                else:
                    cur.clear()
                    cur.update(fresh)


class RealMods:
    """Real ioos_qc modules from /repo's working tree (imported in this process)."""

    def __init__(self):
        import importlib
        self._imp = importlib.import_module

    def __getattr__(self, name):
        before = set(k for k in sys.modules if k.startswith("ioos_qc"))
        m = self._imp(f"ioos_qc.{name}")
        for k in list(sys.modules):
            if k.startswith("ioos_qc") and (k not in before or k not in _REAL_STATE.snap):
                _REAL_STATE.snapshot(k, sys.modules[k])
        return m


_REAL_STATE = ModuleState()


class SymMods:
    def __init__(self, loader):
        self.loader = loader

    def __getattr__(self, name):
        return self.loader.load(f"ioos_qc.{name}")


def _havoc_consts(terms):
    seen = set()
    out = {}
    stack = list(terms)
    while stack:
        t = stack.pop()
        i = t.get_id()
        if i in seen:
            continue
        seen.add(i)
        if z3.is_const(t) and t.decl().kind() == z3.Z3_OP_UNINTERPRETED:
            nm = t.decl().name()
            if nm.startswith("havoc!"):
                out[nm] = t
        else:
            stack.extend(t.children())
    return list(out.values())


class patched_empty:
    """Deterministic stand-in for uninitialised memory while replaying on the real stack: numpy.empty and friends hand out
    arrays pre-filled with a chosen pattern, so that a dependence of the observable result on uninitialised cells shows up as a
    difference between two replays with different patterns."""

    def __init__(self, variant):
        self.variant = variant

    def _fill(self, dtype):
        dt = np.dtype(dtype)
        k = dt.kind
        v = self.variant
        if k == "f":
            return [1.5, -3.25][v]
        if k in "iu":
            return [7, 113][v]
        if k == "b":
            return [True, False][v]
        if k == "M":
            return np.datetime64(["2019-03-03T03:03:03", "2021-07-07T07:07:07"][v]).astype(dt)
        if k == "m":
            return np.timedelta64([11, 977][v], "s").astype(dt)
        return None

    def __enter__(self):
        self.saved = {(np, "empty"): np.empty, (np, "empty_like"): np.empty_like, (np.ma, "empty"): np.ma.empty,
                      (np.ma, "empty_like"): np.ma.empty_like}
        me = self

        def empty(shape, dtype=float, *a, **k):
            r = me.saved[(np, "empty")](shape, dtype, *a, **k)
            f = me._fill(r.dtype)
            if f is not None:
                r.fill(f)
            return r

        def empty_like(x, dtype=None, *a, **k):
            r = me.saved[(np, "empty_like")](x, dtype, *a, **k)
            f = me._fill(r.dtype)
            if f is not None and isinstance(r, np.ndarray):
                np.ma.getdata(r).fill(f)
            return r

        def ma_empty(shape, dtype=float, *a, **k):
            return np.ma.MaskedArray(empty(shape, dtype))

        def ma_empty_like(x, dtype=None, *a, **k):
            r = me.saved[(np.ma, "empty_like")](x, dtype, *a, **k)
            f = me._fill(r.dtype)
            if f is not None:
                np.ma.getdata(r).fill(f)
            return r
        np.empty, np.empty_like, np.ma.empty, np.ma.empty_like = empty, empty_like, ma_empty, ma_empty_like
        return self

    def __exit__(self, *a):
        for (mod, name), f in self.saved.items():
            setattr(mod, name, f)


def real_geod(lat1, lon1, lat2, lon2):
    from geographiclib.geodesic import Geodesic
    try:
        r = Geodesic.WGS84.Inverse(lat1, lon1, lat2, lon2)["s12"]
    except Exception:
        return None
    if r != r:
        return None
    return float(r)


def geod_model(ex, cons, calls, max_rounds=25):
    """Model of `cons` whose interpretation of the uninterpreted geodesic agrees with geographiclib at the
    points it uses (CEGAR, DESIGN §5.2).  Without geod calls this is a plain model query."""
    if not calls:
        return ex.model_of(*cons)
    from .symgeo import GEOD
    facts = []
    for _ in range(max_rounds):
        r, m = ex.model_of(*cons, *facts)
        if r != z3.sat:
            return r, None
        new = []
        for args in calls:
            vals = [_ev(m, a) for a in args]
            if not all(z3.is_rational_value(v) or z3.is_int_value(v) for v in vals):
                continue
            fl = [float(_numval(v)) for v in vals]
            if any(Fraction(f) != _numval(v) for f, v in zip(fl, vals)):
                continue
            real = real_geod(*fl)
            if real is None:
                continue
            gv = _ev(m, GEOD(*vals))
            if _numval(gv) != Fraction(real):
                new.append(GEOD(*vals) == rv(real))
        if not new:
            return z3.sat, m
        facts += new
    return z3.unknown, None


def cvc5_check(smt2, timeout_ms=8000):
    """second opinion on one query: 'unsat' / 'sat' / 'unknown' / None (cvc5 not installed)"""
    try:
        import cvc5
    except Exception:
        return None
    try:
        slv = cvc5.Solver()
        slv.setOption("tlimit-per", str(timeout_ms))
        slv.setLogic("ALL")
        p = cvc5.InputParser(slv)
        p.setStringInput(cvc5.InputLanguage.SMT_LIB_2_6, smt2, "q")
        sm = p.getSymbolManager()
        res = "unknown"
        while True:
            cmd = p.nextCommand()
            if cmd.isNull():
                break
            out = str(cmd.invoke(slv, sm)).strip()
            if out in ("sat", "unsat", "unknown"):
                res = out
        return res
    except Exception as e:
        return "unknown"


def run_job(job, seed=0, replay_dir=None, cross_check=0):
    """Run one job; returns a JSON-able result dict."""
    t0 = time.time()
    res = {
        "job": job.name, "prop": job.prop, "params": jsonable(job.params()),
        "paths": 0, "decisions": 0, "merges": 0, "queries": 0, "solver_time_s": 0.0,
        "obligations": 0, "discharged": 0, "witnesses_validated": 0, "witnesses_skipped": 0,
        "violations": [], "inconclusive": [], "mismatches": [], "samples": [], "known_hits": [],
        "canary": job.expect_canary_sat,
    }
    loader = Loader()
    symmods = SymMods(loader)
    realmods = RealMods()
    V = Vars()
    try:
        S = job.declare(V)
    except Exception as e:  # harness bug
        res["inconclusive"].append(f"declare failed: {e!r}")
        res["wall_s"] = time.time() - t0
        return res
    known = job.known(S)
    base = list(V.assumptions)
    ex = _ex.Explorer(base=base, query_timeout_ms=job.query_timeout_ms, max_paths=job.max_paths,
                      max_seconds=job.max_seconds, seed=seed)
    r0 = ex.check()
    if r0 != z3.sat:
        res["inconclusive"].append(f"admissible(inputs) is {r0} (vacuous job)")
        res["wall_s"] = time.time() - t0
        return res
    kit = SymKit()

    sym_state, real_state = ModuleState(), _REAL_STATE

    loader.on_load = sym_state.snapshot

    def body():
        sym_state.reset()
        with warnings.catch_warnings():
            warnings.simplefilter("ignore")
            return job.invoke(symmods, S, kit)

    def real_outcome(model, Sc=None):
        Sc = concretize(S, model) if Sc is None else Sc
        real_state.reset()
        try:
            with warnings.catch_warnings():
                warnings.simplefilter("ignore")
                with np.errstate(all="ignore"):
                    r = job.invoke(realmods, Sc, RealKit())
            return Sc, job.observe(r)
        except Exception as e:
            return Sc, Outcome(exc=e)

    known_excl = [mk_not(p) for _, p in known]
    blind_pcs = []   # path conditions of the paths the model could not follow to the end: each is probed on the real code
    done_pcs = []    # path conditions of completed paths (for the optional scattered replay)
    try:
        for path in ex.explore(body):
            res["paths"] += 1
            if path.poison:
                res["inconclusive"].append(f"path {res['paths']}: {path.poison}")
                blind_pcs.append(list(path.pc))
                continue
            if path.exc is not None and isinstance(path.exc, Unsupported):
                res["inconclusive"].append(f"path {res['paths']}: UNSUPPORTED {path.exc}")
                blind_pcs.append(list(path.pc))
                continue
            if path.exc is not None and isinstance(path.exc, (RuntimeError,)) and "no active explorer" in str(path.exc):
                res["inconclusive"].append(f"path {res['paths']}: {path.exc}")
                continue
            try:
                out = Outcome(exc=path.exc) if path.exc is not None else job.observe(path.value)
            except Unsupported as e:
                res["inconclusive"].append(f"path {res['paths']}: observe: {e}")
                continue
            pc = list(path.pc)
            done_pcs.append(pc)
            # side conditions: the model's own domain (e.g. no division by zero) must cover all admissible inputs
            for cond, what in path.side:
                r = ex.check(*pc, *known_excl, mk_not(cond))
                if r != z3.unsat:
                    res["inconclusive"].append(f"path {res['paths']}: model domain left ({what}): {r}")
            # purity events (C01)
            if job.check_purity:
                for kind, detail in path.events:
                    if kind == "caller_write":
                        out.extra.setdefault("caller_writes", []).append(detail)
            try:
                obligations = job.holds(S, out)
            except Unsupported as e:
                res["inconclusive"].append(f"path {res['paths']}: holds: {e}")
                continue
            axioms = list(out.extra.get("axioms", []))
            # comparisons of a lazily kept sqrt(V) with a threshold: models used for replay stay away from V == thr^2
            margins = [z3.Or(Vv - t2 >= rv(Fraction(1, 2 ** 20)), t2 - Vv >= rv(Fraction(1, 2 ** 20)))
                       for k, (Vv, t2) in [e for e in path.events if e[0] == "rootcmp"]]
            margins += list(job.model_constraints(S)) if hasattr(job, "model_constraints") else []
            calls = [d for k, d in path.events if k == "geod"]
            if calls:
                from .symgeo import geod_axioms
                axioms += geod_axioms(calls)
            # havoc (uninitialised memory) dependence of the observable result
            if not out.raised:
                hv = _havoc_consts(list(out.flags) + list(out.mask))
                if hv:
                    fresh = [z3.FreshConst(h.sort(), "hv2") for h in hv]
                    sub = list(zip(hv, fresh))
                    diffs = [f != z3.substitute(f, *sub) for f in list(out.flags) + list(out.mask)]
                    pc2 = [z3.substitute(c, *sub) for c in pc]
                    obligations = list(obligations) + [("result independent of uninitialised memory",
                                                        mk_not(mk_and(*pc2, mk_or(*diffs))))]
            hvp = _havoc_consts(pc)
            if hvp:
                obligations = list(obligations) + [("control flow independent of uninitialised memory", FALSE)]
            # witness for this path (validates the environment model against the real stack)
            wmodel = None
            if job.validate_witnesses:
                r, wmodel = geod_model(ex, [*pc, *axioms, *known_excl, *V.grid, *margins], calls)
                if r != z3.sat and not calls:
                    r, wmodel = ex.model_of(*pc, *axioms, *known_excl)
                if r == z3.sat and exact_on_grid(S, wmodel):
                    Sc, rout = real_outcome(wmodel)
                    ok, detail = same_outcome(out, rout, wmodel)
                    res["witnesses_validated"] += 1
                    if ok and not rout.raised and ("other" in rout.extra or "second" in rout.extra):
                        # relational jobs: the model agreed on the first execution, but the real second execution is only
                        # reachable through the property itself - evaluate it on the real outcome as well
                        try:
                            robl2 = job.holds(S, rout)
                            bad2 = [lab for lab, f in robl2 if z3.is_false(z3.simplify(_ev(wmodel, f)))]
                        except Exception:
                            bad2 = []
                        if bad2 and not any(z3.is_true(_ev(wmodel, p)) for _, p in known):
                            res["violations"].append(_violation(job, bad2[0], Sc, rout, out, wmodel, replay_dir, via="witness"))
                    if not ok:
                        # the real code may simply violate the property on this input: check it directly
                        try:
                            robl = job.holds(S, rout)
                        except Exception as e:
                            robl = [("holds() failed on real outcome: %r" % (e,), FALSE)]
                        bad = [lab for lab, f in robl if not z3.is_true(_ev(wmodel, f))]
                        excluded = any(z3.is_true(_ev(wmodel, p)) for _, p in known)
                        if bad and not excluded:
                            res["violations"].append(_violation(job, bad[0], Sc, rout, out, wmodel, replay_dir,
                                                                via="witness"))
                        elif not bad:
                            res["mismatches"].append({"path": res["paths"], "detail": detail, "inputs": jsonable(Sc)})
                            blind_pcs.append(pc)      # the model is wrong on this path: probe the real code along it
                    if len(res["samples"]) < 3:
                        res["samples"].append({"inputs": jsonable(Sc), "real": rout.describe(),
                                               "model": out.describe(wmodel)})
                else:
                    res["witnesses_skipped"] += 1
            # the obligations
            for label, formula in obligations:
                res["obligations"] += 1
                neg = mk_not(formula)
                if z3.is_false(neg):
                    res["discharged"] += 1
                    continue
                r = ex.check(*pc, *axioms, *known_excl, neg)
                if r == z3.unsat:
                    res["discharged"] += 1
                    if cross_check and res.get("cvc5_queries", 0) < cross_check:
                        s2 = z3.Solver()
                        s2.add(*base, *pc, *axioms, *known_excl, neg)
                        verdict = cvc5_check(s2.to_smt2())
                        if verdict is not None:
                            res["cvc5_queries"] = res.get("cvc5_queries", 0) + 1
                            res["cvc5_" + verdict] = res.get("cvc5_" + verdict, 0) + 1
                            if verdict == "sat":
                                res["inconclusive"].append(f"path {res['paths']}: obligation '{label}': z3 says unsat, cvc5 says sat")
                    continue
                if r != z3.sat:
                    res["inconclusive"].append(f"path {res['paths']}: obligation '{label}': solver {r}")
                    continue
                # counterexample: prefer one on the float grid, replay on the real stack
                r2, m = geod_model(ex, [*pc, *axioms, *known_excl, neg, *V.grid, *margins], calls)
                if r2 != z3.sat and not calls and not margins:
                    r2, m = ex.model_of(*pc, *axioms, *known_excl, neg)
                if r2 == z3.unsat and (calls or margins):
                    # the violation exists only for geodesic values geographiclib never produces on the menu, or only
                    # with a spread within 2^-20 of a threshold (excluded by the property itself)
                    res["discharged"] += 1
                    res["cegar_discharged"] = res.get("cegar_discharged", 0) + 1
                    continue
                if m is None:
                    res["inconclusive"].append(f"path {res['paths']}: obligation '{label}': no model")
                    continue
                if label in ("result independent of uninitialised memory", "control flow independent of uninitialised memory"):
                    # replay twice with two different fill patterns behind numpy.empty / masked_all
                    with patched_empty(0):
                        Sc, ra = real_outcome(m)
                    with patched_empty(1):
                        _, rb = real_outcome(m)
                    if json.dumps(ra.describe(), default=str) != json.dumps(rb.describe(), default=str):
                        res["violations"].append(_violation(job, "the result exposes uninitialised memory (it changes with the "
                                                            "contents numpy.empty / masked_all hand out)", Sc, ra, out, m,
                                                            replay_dir, via="solver"))
                    else:
                        res["mismatches"].append({"path": res["paths"], "detail": "dependence on uninitialised memory in the model "
                                                  "did not reproduce with patched numpy.empty", "inputs": jsonable(Sc)})
                    break
                Sc, rout = real_outcome(m)
                try:
                    robl = dict(job.holds(S, rout))
                except Exception as e:
                    robl = {label: FALSE}
                confirmed = [lab for lab, f in robl.items() if not z3.is_true(_ev(m, f))]
                if confirmed:
                    res["violations"].append(_violation(job, label if label in confirmed else confirmed[0], Sc, rout,
                                                        out, m, replay_dir, via="solver"))
                else:
                    res["mismatches"].append({"path": res["paths"], "detail": f"counterexample to '{label}' did not "
                                              f"reproduce on the real code", "inputs": jsonable(Sc),
                                              "real": rout.describe(), "model": out.describe(m)})
                break  # one counterexample per path is enough
    except _ex.Inconclusive as e:
        res["inconclusive"].append(f"exploration stopped: {e}")
    except Exception as e:
        res["inconclusive"].append(f"harness error: {e!r}\n{traceback.format_exc()[-1500:]}")
    if getattr(job, "scatter_replay", 0) and not res["violations"] and not job.expect_canary_sat:
        # jobs whose carrier the model represents only approximately (narrow integer dtypes: scalars taken out of such an array
        # lose their width in the model): besides the solver's own witness per path, replay a few scattered inputs per path on
        # the real code and evaluate the property there
        try:
            ms = _scattered_models(V, list(V.assumptions) + list(V.grid) + known_excl, done_pcs[:job.scatter_replay],
                                   getattr(job, "name", "") + "/replay", per_path=2)
            for m in ms:
                if not exact_on_grid(S, m):
                    continue
                Sc, rout = real_outcome(m)
                try:
                    robl = job.holds(S, rout)
                except Exception:
                    continue
                res["fallback_probes"] = res.get("fallback_probes", 0) + 1
                bad = [lab for lab, f in robl if not concrete_truth(m, f)]
                if bad:
                    res["violations"].append(_violation(job, bad[0], Sc, rout, rout, m, replay_dir, via="scattered replay of the real code"))
                    break
        except Exception as e:
            res["inconclusive"].append(f"scattered replay failed: {e!r}")
    if (res["inconclusive"] or res["mismatches"]) and not res["violations"] and not job.expect_canary_sat:
        try:
            fallback_probe(job, S, V, ex, res, real_outcome, known, replay_dir, blind_pcs=blind_pcs)
        except Exception as e:
            res["inconclusive"].append(f"fallback probe failed: {e!r}")
    if getattr(job, "offgrid", None) and not res["violations"] and not job.expect_canary_sat:
        try:
            offgrid_probe(job, S, V, ex, res, real_outcome, known, replay_dir)
        except Exception as e:
            res["inconclusive"].append(f"off-grid probe failed: {e!r}")
    if hasattr(job, "offgrid_transforms") and not res["violations"] and not job.expect_canary_sat:
        try:
            transform_probe(job, S, V, ex, res, real_outcome, known, replay_dir)
        except Exception as e:
            res["inconclusive"].append(f"transform probe failed: {e!r}")
    if hasattr(job, "offgrid_pins") and not res["violations"] and not job.expect_canary_sat:
        try:
            pinned_probe(job, S, V, ex, res, real_outcome, known, replay_dir)
        except Exception as e:
            res["inconclusive"].append(f"pinned-parameter probe failed: {e!r}")
    res["decisions"] = ex.n_decisions
    res["merges"] = ex.n_merges
    res["queries"] = ex.n_queries
    res["solver_time_s"] = round(ex.solver_time, 3)
    res["files"] = loader.files
    res["wall_s"] = round(time.time() - t0, 3)
    return res


def _pack(Sc):
    import base64
    import pickle
    return base64.b64encode(pickle.dumps(Sc)).decode()


def _atoms(formulas, limit=400):
    """comparison atoms (<, <=, >, >=, =) occurring in a list of z3 formulas"""
    seen, out, stack = set(), [], list(formulas)
    kinds = (z3.Z3_OP_LE, z3.Z3_OP_GE, z3.Z3_OP_LT, z3.Z3_OP_GT, z3.Z3_OP_EQ)
    while stack and len(out) < limit:
        t = stack.pop()
        i = t.get_id()
        if i in seen:
            continue
        seen.add(i)
        if z3.is_app(t) and t.decl().kind() in kinds and t.num_args() == 2 and not z3.is_bool(t.arg(0)):
            out.append(t)
        stack.extend(t.children())
    return out


def fallback_probe(job, S, V, ex, res, real_outcome, known, replay_dir, budget=160, blind_pcs=(), path_budget=240):
    """The code could not be executed symbolically (unsupported library call ...).  Rather than staying blind, run the REAL
    code on solver-chosen inputs aimed at the oracle's own case boundaries and at the extremes of every input, and evaluate the
    property on the real outcome.  A violation found this way is real (it is a replay); absence of one proves nothing and the job
    stays inconclusive."""
    cons = [*V.grid]
    excl = [mk_not(p) for _, p in known]
    targets = []
    # oracle atoms, obtained by evaluating the property on a dummy outcome of the expected shape
    try:
        n = getattr(job, "n", None)
        if n is None and hasattr(job, "a"):
            n = getattr(job.a, "n", None)
        if n is not None:
            dummy = Outcome(flags=[z3.Int(f"dummy!f{i}") for i in range(n)], mask=[FALSE] * n, shape=(n,), dtype="uint8")
            dummy.extra["other"] = Outcome(flags=[z3.Int(f"dummy!g{i}") for i in range(n)], mask=[FALSE] * n, shape=(n,), dtype="uint8")
            dummy.extra["second"] = dummy.extra["other"]
            dummy.extra["info"] = {"args_unchanged": TRUE, "globals_unchanged": True}
            forms = [f for _, f in job.holds(S, dummy)]
            for a in _atoms(forms):
                if any(str(c).startswith("dummy!") for c in _consts(a)):
                    continue
                targets += [a, z3.Not(a)]
                if a.decl().kind() != z3.Z3_OP_EQ:
                    targets.append(a.arg(0) == a.arg(1))
    except Exception:
        pass
    for term, lo, hi in V.terms:
        targets += [term == lo, term == hi]
    for b in V.bools:
        targets += [b, z3.Not(b)]
    oracle_atoms = [t for t in targets if z3.is_bool(t)][:200]
    targets = targets[:budget]
    # one probe per path the model had to abandon: the decisions taken before the unsupported call (window layouts, sizes,
    # branch outcomes) select the input, so every structural case the exploration had already separated is tried on the real code
    targets += [mk_and(*pc) for pc in list(blind_pcs)[:path_budget] if pc]
    models = []
    r, m = ex.model_of(*cons, *excl)
    if r == z3.sat:
        models.append(m)
    for t in targets:
        r, m = ex.model_of(*cons, *excl, t)
        if r == z3.sat:
            models.append(m)
    # ... and, per abandoned path, inputs pulled towards pseudo-random values (the solver's own models are as degenerate as the
    # path allows: equal or evenly spaced values, on which e.g. a median and a mean coincide)
    models += _scattered_models(V, list(V.assumptions) + cons + excl, [pc for pc in list(blind_pcs)[:path_budget // 4]],
                                getattr(job, "name", ""), atoms=oracle_atoms)
    seen = set()
    found = 0
    for m in models:
        if not exact_on_grid(S, m):
            continue
        try:
            Sc, rout = real_outcome(m)
        except Exception:
            continue
        key = json.dumps(jsonable(Sc), sort_keys=True)
        if key in seen:
            continue
        seen.add(key)
        try:
            robl = job.holds(S, rout)
        except Exception:
            continue
        bad = [lab for lab, f in robl if not concrete_truth(m, f)]
        res["fallback_probes"] = res.get("fallback_probes", 0) + 1
        if bad:
            res["violations"].append(_violation(job, bad[0], Sc, rout, rout, m, replay_dir, via="fallback probe of the real code"))
            found += 1
            if found >= 3:
                break


def _scattered_models(V, hard, pcs, salt, per_path=None, timeout_ms=1500, atoms=()):
    """models of each path condition in which the declared numeric inputs are pulled (soft constraints, z3 Optimize) towards
    pseudo-random values of grid G inside their declared ranges and a few randomly chosen oracle comparisons are asked to hold
    (so that the draws land inside spans / windows more often than uniform values would); deterministic in the job name"""
    if not pcs:
        return []
    if per_path is None:
        per_path = max(2, min(8, 24 // len(pcs)))
    import random
    import zlib
    rng = random.Random(zlib.crc32(salt.encode()))
    out = []
    terms = [(t, lo, hi) for t, lo, hi in V.terms if z3.is_real(t) or z3.is_int(t)]
    if not terms:
        return out
    for pc in pcs:
        for _ in range(per_path):
            opt = z3.Optimize()
            opt.set("timeout", timeout_ms)
            for h in hard:
                opt.add(h)
            for c in pc:
                opt.add(c)
            for t, lo, hi in terms:
                lo_, hi_ = max(float(lo), -64.0), min(float(hi), 64.0)
                if lo_ > hi_:
                    lo_, hi_ = float(lo), float(hi)
                x = Fraction(round(rng.uniform(lo_, hi_) * 8), 8)
                opt.add_soft(t == (z3.IntVal(int(x)) if z3.is_int(t) else rv(x)))
            for a in rng.sample(list(atoms), min(4, len(atoms))):
                opt.add_soft(a, 8)
            try:
                if opt.check() == z3.sat:
                    out.append(opt.model())
            except z3.Z3Exception:
                pass
    return out


def concrete_truth(m, f):
    """truth value of formula f under model m, with the uninterpreted geodesic replaced by geographiclib's value at the
    concrete argument points (so that an arbitrary interpretation chosen by the solver never decides anything)"""
    from .symgeo import GEOD
    if isinstance(f, bool):
        return f
    cs = _consts(f) if m is not None else []
    g = z3.substitute(f, *[(c, _ev(m, c)) for c in cs]) if cs else f
    for _ in range(6):
        g = z3.simplify(g)
        apps, stack, seen = [], [g], set()
        while stack:
            x = stack.pop()
            if x.get_id() in seen:
                continue
            seen.add(x.get_id())
            if z3.is_app(x) and x.decl().eq(GEOD) and all(_is_numeral(a) for a in x.children()):
                apps.append(x)
            stack.extend(x.children())
        if not apps:
            break
        subs = []
        for a in apps:
            rg = real_geod(*[float(_numval(c)) for c in a.children()])
            subs.append((a, rv(rg if rg is not None else 0.0)))
        g = z3.substitute(g, *subs)
    g = z3.simplify(g)
    if z3.is_true(g):
        return True
    if z3.is_false(g):
        return False
    if m is None:
        return False
    return z3.is_true(z3.simplify(_ev(m, g)))


def _scale_floats(x, num, den):
    """structure-preserving map v -> v*num/den on python floats (NaN kept); everything else untouched"""
    if isinstance(x, bool):
        return x
    if isinstance(x, float):
        return x if x != x else x * num / den
    if isinstance(x, dict):
        return {k: _scale_floats(v, num, den) for k, v in x.items()}
    if isinstance(x, list):
        return [_scale_floats(v, num, den) for v in x]
    if isinstance(x, tuple):
        return tuple(_scale_floats(v, num, den) for v in x)
    if isinstance(x, Struct):
        return Struct(**{k: _scale_floats(v, num, den) for k, v in vars(x).items()})
    return x


def offgrid_probe(job, S, V, ex, res, real_outcome, known, replay_dir, budget=120):
    """For properties whose oracle only *compares* inputs (range tests, bounding box, climatology spans) binary64 and the reals
    agree on every float, not just on grid G.  The solver's boundary-seeking models (each oracle comparison true / false / exactly
    equal) are mapped off the grid by a monotone scaling (x -> x/10, x -> 7x/3: decimal-looking, non-dyadic floats that keep every
    order relation and equality), the REAL code is run on them and the property is evaluated on the exact rational values of those
    floats.  An implementation that replaces the comparisons by arithmetic (|x - centre| > half_width, ...) is exact in the reals -
    and therefore invisible to the real-number encoding - but not in binary64; this probe is what sees it."""
    from . import findings
    cons = [*V.grid]
    excl = [mk_not(p) for _, p in known]
    oracle = getattr(job, "offgrid_oracle", job)     # whose comparisons are the boundaries to aim at
    prepare = getattr(job, "offgrid_prepare", lambda Sc: Sc)
    n = getattr(oracle, "n", None)
    targets = []
    if n is not None:
        try:
            dummy = Outcome(flags=[z3.Int(f"dummy!f{i}") for i in range(n)], mask=[FALSE] * n, shape=(n,), dtype="uint8")
            for a in _atoms([f for _, f in oracle.holds(S, dummy)]):
                if any(str(c).startswith("dummy!") for c in _consts(a)):
                    continue
                if a.decl().kind() != z3.Z3_OP_EQ:
                    targets.append(a.arg(0) == a.arg(1))
                targets += [a, z3.Not(a)]
        except Exception:
            pass
    models = []
    for t in targets[:budget]:
        r, m = ex.model_of(*cons, *excl, t)
        if r == z3.sat and exact_on_grid(S, m):
            models.append(m)
    # the solver's own boundary models are as degenerate as the boundary allows (everything 0, which no scaling moves off the
    # grid): add, per boundary, one model whose inputs are pulled towards pseudo-random values
    models += [m for m in _scattered_models(V, list(V.assumptions) + cons + excl, [[t] for t in targets[:budget // 2]],
                                            getattr(job, "name", "") + "/offgrid", per_path=1) if exact_on_grid(S, m)]
    seen = set()
    for m in models:
        Sc0 = concretize(S, m)
        for num, den in getattr(job, "offgrid_scales", ((1, 10), (7, 3))):
            Sc = prepare(_scale_floats(Sc0, num, den))
            key = json.dumps(jsonable(Sc), sort_keys=True)
            if key in seen:
                continue
            seen.add(key)
            _, rout = real_outcome(None, Sc)
            try:
                robl = job.holds(findings.symbolize(Sc), rout)
            except Exception:
                continue
            res["offgrid_probes"] = res.get("offgrid_probes", 0) + 1
            bad = [lab for lab, f in robl if not concrete_truth(None, f)]
            if bad:
                res["violations"].append(_violation(job, bad[0] + " [inputs off the dyadic grid G]", Sc, rout, rout, None, replay_dir,
                                                    via="off-grid probe of the real code"))
                return


def transform_probe(job, S, V, ex, res, real_outcome, known, replay_dir, budget=40):
    """Real-code probe on inputs obtained from grid models by an exact transformation under which the property is invariant over
    the reals (e.g. adding 2^30 to every data value of a spread test).  `job.offgrid_transforms()` yields (label, transform, safe):
    `transform(Sc)` maps concrete inputs to the probe inputs, `safe(Sc')` says whether every oracle comparison keeps a wide margin on
    the exact rational values (so that the unchanged code's own rounding cannot flip it).  The oracle is evaluated exactly on the
    transformed inputs; a formula that is equivalent over the reals but cancels catastrophically in binary64 shows up here."""
    from . import findings
    excl = [mk_not(p) for _, p in known]
    n = getattr(job, "n", None)
    atoms = []
    if n is not None:
        try:
            dummy = Outcome(flags=[z3.Int(f"dummy!f{i}") for i in range(n)], mask=[FALSE] * n, shape=(n,), dtype="uint8")
            for a in _atoms([f for _, f in job.holds(S, dummy)]):
                if not any(str(c).startswith("dummy!") for c in _consts(a)):
                    atoms += [a, z3.Not(a)]
        except Exception:
            pass
    hard = list(V.assumptions) + list(V.grid) + excl
    models = _scattered_models(V, hard, [[a] for a in atoms[:budget]] or [[]], getattr(job, "name", "") + "/transform", per_path=1)
    seen = set()
    for label, transform, safe in job.offgrid_transforms():
        for m in models:
            if not exact_on_grid(S, m):
                continue
            Sc = transform(concretize(S, m))
            key = label + json.dumps(jsonable(Sc), sort_keys=True)
            if key in seen or not safe(Sc):
                continue
            seen.add(key)
            _, rout = real_outcome(None, Sc)
            try:
                robl = job.holds(findings.symbolize(Sc), rout)
            except Exception:
                continue
            res["offgrid_probes"] = res.get("offgrid_probes", 0) + 1
            bad = [lab for lab, f in robl if not concrete_truth(None, f)]
            if bad:
                res["violations"].append(_violation(job, bad[0] + f" [{label}]", Sc, rout, rout, None, replay_dir,
                                                    via="transform probe of the real code"))
                return


def pinned_probe(job, S, V, ex, res, real_outcome, known, replay_dir, budget=40):
    """Real-code probe with one parameter pinned far below grid G (e.g. a tolerance of 2^-60 next to data of order 1..2^20).
    Only for jobs that state why binary64 is still exact there (`job.offgrid_pins(S)` documents it): the oracle is evaluated on
    the exact rational values of the inputs, so the unchanged code must agree; code that re-associates the arithmetic
    (x_max < x_min + tol instead of x_max - x_min < tol) is equivalent over the reals - invisible to the encoding - but lets the
    tiny parameter be absorbed by rounding."""
    from . import findings
    excl = [mk_not(p) for _, p in known]
    n = getattr(job, "n", None)
    atoms = []
    if n is not None:
        try:
            dummy = Outcome(flags=[z3.Int(f"dummy!f{i}") for i in range(n)], mask=[FALSE] * n, shape=(n,), dtype="uint8")
            for a in _atoms([f for _, f in job.holds(S, dummy)]):
                if any(str(c).startswith("dummy!") for c in _consts(a)):
                    continue
                atoms += [a, z3.Not(a)]
        except Exception:
            pass
    seen = set()
    for label, pins in job.offgrid_pins(S):
        pinned_ids = {t.get_id() for t in pins}
        grid = [g for g in V.grid if not any(c.get_id() in pinned_ids for c in _consts(g))]
        hard = list(V.assumptions) + grid + excl + [t == rv(v) for t, v in pins.items()]
        models = _scattered_models(V, hard, [[a] for a in atoms[:budget]] or [[]], getattr(job, "name", "") + "/pin/" + label, per_path=1)
        for m in models:
            if not exact_on_grid(S, m):
                continue
            Sc = concretize(S, m)
            key = json.dumps(jsonable(Sc), sort_keys=True)
            if key in seen:
                continue
            seen.add(key)
            _, rout = real_outcome(None, Sc)
            try:
                robl = job.holds(findings.symbolize(Sc), rout)
            except Exception:
                continue
            res["offgrid_probes"] = res.get("offgrid_probes", 0) + 1
            bad = [lab for lab, f in robl if not concrete_truth(None, f)]
            if bad:
                res["violations"].append(_violation(job, bad[0] + f" [{label}]", Sc, rout, rout, None, replay_dir,
                                                    via="pinned-parameter probe of the real code"))
                return


def _consts(t):
    out, stack, seen = [], [t], set()
    while stack:
        x = stack.pop()
        if x.get_id() in seen:
            continue
        seen.add(x.get_id())
        if z3.is_const(x) and x.decl().kind() == z3.Z3_OP_UNINTERPRETED:
            out.append(x)
        stack.extend(x.children())
    return out


def _violation(job, label, Sc, rout, sout, model, replay_dir, via):
    case = {
        "property": job.prop, "job": job.name, "params": jsonable(job.params()), "violated": label,
        "inputs": jsonable(Sc), "pickle": _pack(Sc), "real_outcome": rout.describe(), "model_outcome": sout.describe(model), "found_via": via,
    }
    path = None
    if replay_dir:
        os.makedirs(replay_dir, exist_ok=True)
        import hashlib
        h = hashlib.sha1(json.dumps(case, sort_keys=True).encode()).hexdigest()[:12]
        path = os.path.join(replay_dir, f"{job.prop}_{h}.json")
        with open(path, "w") as f:
            json.dump(case, f, indent=1)
    case["replay"] = path
    return case
