"""Load /repo's ioos_qc source files into a private namespace whose imports resolve to the
symbolic environment model (DESIGN §3.4).  Nothing under /repo is modified."""
from __future__ import annotations

import builtins
import hashlib
import importlib
import os
import sys
import types

from .values import SBool, SFloat, SInt, Sym, Unsupported

REPO = os.environ.get("IOOS_QC_REPO", "/repo")


class _IntMeta(type):
    def __call__(cls, x=0, *a):
        if isinstance(x, Sym):
            if hasattr(x, "__sym_int__"):
                return x.__sym_int__()
            raise TypeError(f"int() argument must be a number, not {type(x).__name__}")
        return int(x, *a)

    def __instancecheck__(cls, inst):
        return isinstance(inst, (int, SInt))

    def __subclasscheck__(cls, sub):
        return issubclass(sub, int)

    def __eq__(cls, o):
        return o is cls or o is int

    def __hash__(cls):
        return hash(int)


class SymIntType(metaclass=_IntMeta):
    pass


class _FloatMeta(type):
    def __call__(cls, x=0.0):
        if isinstance(x, Sym):
            if hasattr(x, "__sym_float__"):
                return x.__sym_float__()
            raise TypeError(f"float() argument must be a string or a real number, not {type(x).__name__}")
        return float(x)

    def __instancecheck__(cls, inst):
        return isinstance(inst, (float, SFloat))

    def __subclasscheck__(cls, sub):
        return issubclass(sub, float)

    def __eq__(cls, o):
        return o is cls or o is float

    def __hash__(cls):
        return hash(float)


class SymFloatType(metaclass=_FloatMeta):
    pass


class _StrMeta(type):
    def __call__(cls, x="", *a, **k):
        from .symstr import SCat, SStr
        if isinstance(x, (SStr, SCat)):
            return x
        return str(x, *a, **k)

    def __instancecheck__(cls, inst):
        from .symstr import SCat, SStr
        return isinstance(inst, (str, SStr, SCat))

    def __subclasscheck__(cls, sub):
        return issubclass(sub, str)

    def __eq__(cls, o):
        return o is cls or o is str

    def __hash__(cls):
        return hash(str)

    def __getattr__(cls, name):
        return getattr(str, name)


class SymStrType(metaclass=_StrMeta):
    pass


def _sym_isinstance(obj, types_):
    return isinstance(obj, types_)


class Loader:
    def __init__(self, repo=REPO):
        self.repo = repo
        self.modules = {}
        self.files = {}
        from . import symnp, sympd
        self.models = {"numpy": symnp, "pandas": sympd}
        self.extra_models = {}
        self._builtins = dict(vars(builtins))
        self._builtins["__import__"] = self._import
        self._builtins["int"] = SymIntType
        self._builtins["float"] = SymFloatType
        self._builtins["str"] = SymStrType
        self._builtins["abs"] = lambda x: x.__abs__() if hasattr(x, "__abs__") else abs(x)

    # -- import machinery ---------------------------------------------------------------
    def _import(self, name, globals=None, locals=None, fromlist=(), level=0):
        if level:
            pkg = globals.get("__package__") or globals["__name__"].rpartition(".")[0]
            base = pkg.split(".")
            if level > 1:
                base = base[: -(level - 1)]
            name = ".".join(base + ([name] if name else []))
        top = name.split(".")[0]
        if top == "ioos_qc":
            mod = self.load(name)
            if fromlist:
                for f in fromlist:
                    if not hasattr(mod, f):
                        try:
                            setattr(mod, f, self.load(f"{name}.{f}"))
                        except (FileNotFoundError, ImportError):
                            pass
                return mod
            return self.load("ioos_qc")
        if top == "numba":
            raise ImportError("numba is not part of the model")
        if name == "re":
            from . import symstr
            return symstr
        if name in self.extra_models:
            return self.extra_models[name]
        if top in self.models:
            m = self.models[top]
            if fromlist or "." not in name:
                sub = m
                for part in name.split(".")[1:]:
                    sub = getattr(sub, part)
                return sub if fromlist else m
            return m
        if top == "importlib" and fromlist and "import_module" in fromlist:
            return types.SimpleNamespace(import_module=self.import_module)
        if top == "geographiclib":
            from . import symgeo
            return symgeo.module_for(name, fromlist)
        if top == "scipy":
            from . import symscipy
            if name == "scipy.interpolate":
                return symscipy.interpolate if fromlist else symscipy
            raise ImportError(f"{name} is not part of the model")
        if top == "xarray":
            from . import symxr
            if name == "xarray.core.indexing":
                if fromlist and "remap_label_indexers" in fromlist:
                    raise ImportError("remap_label_indexers")
                return symxr.core.indexing if fromlist else symxr
            return symxr
        return builtins.__import__(name, globals, locals, fromlist, level)

    def import_module(self, name):
        if name.startswith("ioos_qc"):
            try:
                return self.load(name)
            except FileNotFoundError:
                raise ImportError(f"No module named {name!r}")
        return importlib.import_module(name)

    # -- loading ------------------------------------------------------------------------------
    def _path(self, name):
        rel = name.replace(".", "/")
        p = os.path.join(self.repo, rel + ".py")
        if os.path.exists(p):
            return p, False
        p = os.path.join(self.repo, rel, "__init__.py")
        if os.path.exists(p):
            return p, True
        raise FileNotFoundError(name)

    def load(self, name):
        if name in self.modules:
            return self.modules[name]
        path, is_pkg = self._path(name)
        src = open(path, encoding="utf-8").read()
        self.files[os.path.relpath(path, self.repo)] = hashlib.sha256(src.encode()).hexdigest()
        mod = types.ModuleType(name)
        mod.__file__ = path
        mod.__package__ = name if is_pkg else name.rpartition(".")[0]
        if is_pkg:
            mod.__path__ = [os.path.dirname(path)]
        mod.__dict__["__builtins__"] = self._builtins
        self.modules[name] = mod
        if name == "ioos_qc":
            # the package __init__ only computes a version string
            mod.__version__ = "symbolic"
            return mod
        code = compile(src, path, "exec")
        # dataclasses look their module up in sys.modules while the class body is processed: expose the symbolic
        # module under its name for the duration of the exec only (the real module, if imported, is put back)
        saved = sys.modules.get(name, None)
        sys.modules[name] = mod
        try:
            exec(code, mod.__dict__)
        except BaseException:
            del self.modules[name]
            raise
        finally:
            if saved is not None:
                sys.modules[name] = saved
            else:
                sys.modules.pop(name, None)
        parent, _, leaf = name.rpartition(".")
        if parent in self.modules:
            setattr(self.modules[parent], leaf, mod)
        if getattr(self, "on_load", None) is not None:
            self.on_load(name, mod)
        return mod

    def function_span(self, relpath, funcname):
        """(first_line, last_line) of a top-level or nested def, for the evidence file."""
        import ast
        src = open(os.path.join(self.repo, relpath), encoding="utf-8").read()
        tree = ast.parse(src)
        for node in ast.walk(tree):
            if isinstance(node, (ast.FunctionDef, ast.ClassDef)) and node.name == funcname:
                return node.lineno, node.end_lineno
        return None
