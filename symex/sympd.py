"""Symbolic model of the subset of pandas that ioos_qc uses (DESIGN §3.3)."""
from __future__ import annotations

import re as _re

import numpy as _np
import z3

from . import explorer as _ex
from . import symnp as snp
from .values import (FALSE, TRUE, SBool, SDelta, SFloat, SInt, STime, Sym, Unsupported, as_stime, is_f, is_t,
                     lookup_fmt, masked, mk_and, mk_eq, mk_if, mk_not, mk_or, rv)

_CAL = ("year", "month", "day", "dayofyear", "day_of_year", "dayofweek", "day_of_week", "weekday", "quarter", "hour")


def _arr(x):
    if isinstance(x, snp.ndarray):
        return x
    if isinstance(x, Series):
        return x.values_arr()
    if isinstance(x, Index):
        return x.arr
    return snp.asarray(x)


class Index:
    def __getattr__(self, name):
        import pandas as _rpd
        from .values import missing_attr
        missing_attr(getattr(_rpd, type(self).__name__, _rpd.Index), name, f"pandas.{type(self).__name__}")

    def __init__(self, data=None, dtype=None, name=None, copy=False):
        if isinstance(data, Series):
            name = name if name is not None else data.name
            data = data.values_arr()
        elif isinstance(data, Index):
            name = name if name is not None else data.name
            data = data.arr
        a = _arr(data if data is not None else [])
        if a._is_masked:
            a = a._data_arr()
        if dtype is not None:
            a = a.astype(dtype)
        self.arr = a
        self.name = name

    def __new__(cls, data=None, dtype=None, name=None, copy=False, **kw):
        if cls is Index:
            a = None
            if isinstance(data, DatetimeIndex):
                if dtype is None:
                    return object.__new__(DatetimeIndex)
            elif data is not None and dtype is None:
                try:
                    a = _arr(data)
                except Exception:
                    a = None
                if a is not None and a._dt.kind == "M":
                    return object.__new__(DatetimeIndex)
        return object.__new__(cls)

    @property
    def dtype(self):
        return self.arr._dt

    @property
    def values(self):
        return self.arr

    @property
    def size(self):
        return self.arr.size

    @property
    def shape(self):
        return self.arr.shape

    def __len__(self):
        return len(self.arr)

    def __iter__(self):
        return iter(self.arr)

    def to_numpy(self, dtype=None, copy=False):
        return self.arr.copy() if dtype is None else self.arr.astype(dtype)

    def __array__(self, *a, **k):
        raise Unsupported("symbolic Index handed to real numpy")

    def to_series(self, index=None, name=None):
        return Series(self.arr.copy(), index=self if index is None else index, name=self.name)

    def astype(self, t):
        return Index(self.arr.astype(t), name=self.name)

    def equals(self, o):
        return self is o or (isinstance(o, Index) and self.arr is o.arr)

    def searchsorted(self, value, side="left", sorter=None):
        return snp.searchsorted(self.arr, value, side, sorter)

    def isin(self, values):
        return snp.isin(self.arr, _arr(values))

    @property
    def is_unique(self):
        xs = list(self.arr.a)
        return not any(_label_eq(a, b) for i, a in enumerate(xs) for b in xs[i + 1:])

    def _cmp(self, o, op):
        if isinstance(o, (Series,)):
            return NotImplemented
        return snp._binary(op, self.arr, o.arr if isinstance(o, Index) else o)

    def __lt__(self, o):
        return self._cmp(o, "<")

    def __le__(self, o):
        return self._cmp(o, "<=")

    def __gt__(self, o):
        return self._cmp(o, ">")

    def __ge__(self, o):
        return self._cmp(o, ">=")

    def __eq__(self, o):
        return self._cmp(o, "==")

    def __ne__(self, o):
        return self._cmp(o, "!=")

    __hash__ = object.__hash__

    def __getitem__(self, idx):
        r = self.arr[idx]
        if isinstance(r, snp.ndarray):
            return type(self)(r, name=self.name)
        return r

    def __repr__(self):
        return f"sym{type(self).__name__}({self.arr.a.tolist()!r})"

    def __contains__(self, key):
        for x in self.arr.a.flat:
            if _label_eq(x, key):
                return True
        return False


def _label_eq(a, b):
    if isinstance(a, Sym) or isinstance(b, Sym):
        r = a == b
        if r is NotImplemented:
            return False
        return bool(r)
    return a == b


class RangeIndex(Index):
    def __init__(self, n=0, **kw):
        Index.__init__(self, snp.asarray(_np.arange(int(n))))


class DatetimeIndex(Index):
    _tz = None

    def __init__(self, data=None, dtype=None, name=None, copy=False, tz=None, **kw):
        self._tz = tz
        if isinstance(data, (Series, Index)):
            name = name if name is not None else data.name
            data = data.values_arr() if isinstance(data, Series) else data.arr
        a = _arr(data if data is not None else [])
        if a._is_masked:
            a = a._data_arr()
        if a._dt.kind != "M":
            if a.a.size == 0:
                a = snp.ndarray(a.a, "datetime64[ns]")
            elif a._dt.kind == "O":
                a = a.astype("datetime64[ns]")
            else:
                raise Unsupported(f"DatetimeIndex from {a._dt}")
        if a.a.ndim != 1:
            raise ValueError("Index data must be 1-dimensional")
        self.arr = a
        self.name = name

    def _attr(self, name):
        out = snp._obj(self.arr.a.shape)
        for i, t in enumerate(self.arr.a):
            out[i] = getattr(t, name)
        return Index(snp.ndarray(out, "int32"), name=self.name)

    def __getattr__(self, name):
        if name in _CAL:
            return self._attr(name)
        import pandas as _rpd
        from .values import missing_attr
        missing_attr(_rpd.DatetimeIndex, name, "pandas.DatetimeIndex")

    def isocalendar(self):
        wk = Series(self._attr("week").arr.astype("uint32"), index=self, name="week")
        return _IsoCal(wk)

    def tz_localize(self, tz):
        if tz is None:
            return DatetimeIndex(self.arr, name=self.name)
        raise Unsupported("tz_localize(tz)")

    @property
    def tz(self):
        return self._tz

    @property
    def dtype(self):
        if self._tz is not None:
            return TzDtype()
        return self.arr._dt

    def astype(self, t):
        if self._tz is not None:
            raise TypeError("Cannot use .astype to convert from timezone-aware dtype to timezone-naive dtype.")
        return DatetimeIndex(self.arr.astype(t), name=self.name)


class _IsoCal:
    def __init__(self, week):
        self.week = week

    def __getitem__(self, k):
        if k == "week":
            return self.week
        raise Unsupported(f"isocalendar()[{k!r}]")


class _DtAccessor:
    def __init__(self, s):
        self.s = s

    def tz_localize(self, tz):
        if tz is None:
            return Series(self.s.values_arr(), index=self.s.index, name=self.s.name)
        raise Unsupported("dt.tz_localize(tz)")

    def total_seconds(self):
        return Series(TimedeltaIndex(self.s.values_arr()).total_seconds().arr, index=self.s.index)

    @property
    def seconds(self):
        return Series(TimedeltaIndex(self.s.values_arr()).seconds.arr, index=self.s.index)

    @property
    def days(self):
        return Series(TimedeltaIndex(self.s.values_arr()).days.arr, index=self.s.index)

    def __getattr__(self, name):
        if name in _CAL:
            return Series(DatetimeIndex(self.s.values_arr())._attr(name).arr, index=self.s.index)
        import pandas as _rpd
        from .values import missing_attr
        missing_attr(_rpd.core.indexes.accessors.DatetimeProperties, name, "pandas.Series.dt")


class TzDtype:
    """dtype of a tz-aware datetime Series (has a .tz attribute, which is what mapdates looks for)."""
    kind = "M"
    tz = "UTC"
    name = "datetime64[ns, UTC]"

    def __eq__(self, o):
        return isinstance(o, TzDtype) or o == self.name

    __hash__ = object.__hash__

    def __repr__(self):
        return self.name


class Series:
    def __getattr__(self, name):
        import pandas as _rpd
        from .values import missing_attr
        missing_attr(_rpd.Series, name, "pandas.Series")

    def __init__(self, data=None, index=None, dtype=None, name=None, tz=None, copy=False):
        if isinstance(data, (int, float, bool)) and index is not None:
            n = len(index)
            data = snp.full((n,), data, dtype if dtype is not None else None)
            dtype = None
        if data is None:
            data = snp.ndarray(snp._obj((0,)), dtype if dtype is not None else "object")
            dtype = None
        if isinstance(data, Series):
            if index is None:
                index = data.index
            data = data.values_arr()
        a = _arr(data)
        if a._is_masked:
            # pandas sanitize_masked_array: masked entries become NaN (float) / NaT
            d = a._data_arr().copy()
            if a._mask is not None:
                if d._dt.kind in "fMm":
                    na = snp.cast_scalar(None, d._dt) if d._dt.kind == "f" else (
                        STime(0, TRUE) if d._dt.kind == "M" else SDelta(0, TRUE))
                    for p in _np.ndindex(d.a.shape):
                        d.a[p] = snp.ite(a._mask.a[p].b, na, d.a[p])
                elif d._dt.kind == "b":
                    # promoted to object with NaN, then cast back to bool by the caller: NaN -> True
                    for p in _np.ndindex(d.a.shape):
                        d.a[p] = snp.ite(a._mask.a[p].b, SBool(True), d.a[p])
                elif d._dt.kind in "iu":
                    # maybe_promote(int, NaN) -> float64, but only when something is actually masked
                    if bool(a._mask.any()):
                        d = d.astype("float64")
                        na = SFloat.const(float("nan"))
                        for p in _np.ndindex(d.a.shape):
                            d.a[p] = snp.ite(a._mask.a[p].b, na, d.a[p])
                else:
                    raise Unsupported(f"Series from masked {d._dt}")
            a = d
        if dtype is not None:
            a = a.astype(dtype)
        if a.a.ndim != 1:
            raise ValueError("Data must be 1-dimensional")
        self._a = a
        if index is None:
            index = RangeIndex(len(a))
        elif not isinstance(index, Index):
            ia = _arr(index)
            index = DatetimeIndex(ia) if ia._dt.kind == "M" else Index(ia)
        if len(index) != len(a):
            raise ValueError(f"Length of values ({len(a)}) does not match length of index ({len(index)})")
        self.index = index
        self.name = name
        self._tz = tz

    def _wrap(self, arr):
        return Series(arr, index=self.index, name=self.name)

    def values_arr(self):
        return self._a

    @property
    def values(self):
        return self._a

    @property
    def dtype(self):
        if self._tz is not None:
            return TzDtype()
        return self._a._dt

    @property
    def dt(self):
        if self._a._dt.kind not in "Mm":
            raise AttributeError("Can only use .dt accessor with datetimelike values")
        return _DtAccessor(self)

    @property
    def size(self):
        return self._a.size

    @property
    def shape(self):
        return self._a.shape

    @property
    def ndim(self):
        return 1

    def __len__(self):
        return len(self._a)

    def __iter__(self):
        return iter(self._a)

    def __array__(self, *a, **k):
        raise Unsupported("symbolic Series handed to real numpy")

    def to_numpy(self, dtype=None, copy=False):
        # pandas >= 3 (copy-on-write): the array handed out must not alias a caller-owned buffer for writing
        r = self._a.copy()
        return r if dtype is None else r.astype(dtype)

    def astype(self, t):
        if self._tz is not None:
            raise TypeError("Cannot use .astype to convert from timezone-aware dtype to timezone-naive dtype.")
        return Series(self._a.astype(t), index=self.index, name=self.name)

    def copy(self):
        return Series(self._a.copy(), index=self.index, name=self.name, tz=self._tz)

    def _same_index(self, o):
        return self.index is o.index or self.index.arr is o.index.arr or (
            len(self.index) == len(o.index) and all(x is y for x, y in zip(self.index.arr.a, o.index.arr.a)))

    def _op(self, o, op, rev=False):
        if isinstance(o, Series):
            if not self._same_index(o):
                raise Unsupported("Series op with index alignment")
            ov = o.values_arr()
        elif isinstance(o, Index):
            ov = o.arr
        else:
            ov = o
        sv = self._a
        if isinstance(ov, snp.ndarray) and ov._is_masked and op in ("&", "|", "^"):
            # pandas logical_op: ndarray op MaskedArray -> MaskedArray; Series(MaskedArray, dtype=bool):
            # masked entries -> NaN -> True
            r = snp._masked_binary(op, ov, sv) if rev else snp._masked_binary(op, sv, ov)
            d = r._data_arr().copy()
            if r._mask is not None:
                for p in _np.ndindex(d.a.shape):
                    d.a[p] = snp.ite(r._mask.a[p].b, SBool(True), d.a[p])
            return self._wrap(d)
        if isinstance(ov, snp.ndarray) and ov._is_masked:
            raise Unsupported(f"Series {op} MaskedArray")
        r = snp._binary(op, ov, sv) if rev else snp._binary(op, sv, ov)
        return self._wrap(r)

    def __lt__(self, o):
        return self._op(o, "<")

    def __le__(self, o):
        return self._op(o, "<=")

    def __gt__(self, o):
        return self._op(o, ">")

    def __ge__(self, o):
        return self._op(o, ">=")

    def __eq__(self, o):
        return self._op(o, "==")

    def __ne__(self, o):
        return self._op(o, "!=")

    def __and__(self, o):
        return self._op(o, "&")

    def __rand__(self, o):
        return self._op(o, "&", True)

    def __or__(self, o):
        return self._op(o, "|")

    def __ror__(self, o):
        return self._op(o, "|", True)

    def __add__(self, o):
        return self._op(o, "+")

    def __sub__(self, o):
        return self._op(o, "-")

    def __mul__(self, o):
        return self._op(o, "*")

    def __truediv__(self, o):
        return self._op(o, "/")

    def __invert__(self):
        return self._wrap(snp._unary("~", self._a))

    def __neg__(self):
        return self._wrap(snp._unary("neg", self._a))

    def __abs__(self):
        return self._wrap(snp._unary("abs", self._a))

    __hash__ = object.__hash__

    def any(self):
        return self._a.any()

    def all(self):
        return self._a.all()

    def isna(self):
        return self._wrap(snp.isnan(self._a))

    isnull = isna

    def __getitem__(self, key):
        if isinstance(key, (Series, snp.ndarray)):
            k = _arr(key)
            if k._dt.kind == "b":
                return Series(self._a[k], index=self.index[k], name=self.name)
        raise Unsupported("Series.__getitem__ by label")

    @property
    def loc(self):
        return _SeriesLoc(self)

    @property
    def iloc(self):
        return _SeriesILoc(self)

    def rolling(self, window, min_periods=None, **kw):
        return Rolling(self, window, min_periods)

    def __repr__(self):
        return f"symSeries({self._a.a.tolist()!r})"


class _SeriesLoc:
    def __init__(self, s):
        self.s = s

    def __getitem__(self, key):
        if isinstance(key, slice) and key == slice(None):
            return self.s
        return self.s[key]


def _label_positions(index, key):
    """positions of the labels `key` (Index / array / list) in `index` (all matches, label by label)"""
    k = key
    if isinstance(k, Index):
        k = k.arr
    if isinstance(k, Series):
        k = k.values_arr()
    labels = list(k.a.flat) if isinstance(k, snp.ndarray) else list(k)
    pos = []
    for lab in labels:
        hit = [i for i, x in enumerate(index.arr.a) if x is lab]
        if not hit:
            hit = [i for i, x in enumerate(index.arr.a) if _label_eq(x, lab)]
        if not hit:
            raise KeyError(f"{lab!r} not in index")
        pos.extend(hit)
    return pos


def _series_loc_set(self, key, value):
    if isinstance(key, slice) and key == slice(None):
        self.s._a[:] = value
        return
    if isinstance(key, (Series, snp.ndarray)) and _arr(key)._dt.kind == "b":
        self.s._a[_arr(key)] = value
        return
    pos = _label_positions(self.s.index, key)
    if pos:
        self.s._a[_np.array(pos, dtype=int)] = value


_SeriesLoc.__setitem__ = _series_loc_set


class _SeriesILoc:
    def __init__(self, s):
        self.s = s

    def _positions(self, key):
        """Positional indexer: must be integers in range (labels used as positions is ioos_qc's own choice)."""
        k = key
        if isinstance(k, Index):
            k = k.arr
        if isinstance(k, Series):
            k = k.values_arr()
        if isinstance(k, snp.ndarray):
            if k._dt.kind == "b":
                return "bool", k
            if k._dt.kind not in "iu":
                raise IndexError(f"iloc cannot index with {k._dt} labels (positional indexer required)")
            return "pos", [int(x) for x in k.a.flat]
        if isinstance(k, (list, tuple)):
            return "pos", [int(x) for x in k]
        if isinstance(k, slice):
            return "slice", k
        return "pos1", int(k)

    def __setitem__(self, key, value):
        kind, k = self._positions(key)
        n = len(self.s)
        if kind == "pos":
            for p in k:
                if not -n <= p < n:
                    raise IndexError("iloc cannot enlarge its target object")
            if k:
                self.s._a[_np.array(k, dtype=int)] = value
            return
        if kind == "pos1":
            if not -n <= k < n:
                raise IndexError("iloc cannot enlarge its target object")
            self.s._a[k] = value
            return
        self.s._a[k] = value

    def __getitem__(self, key):
        kind, k = self._positions(key)
        n = len(self.s)
        if kind == "pos1":
            if not -n <= k < n:
                raise IndexError("single positional indexer is out-of-bounds")
            return self.s._a[k]
        if kind == "pos":
            for p in k:
                if not -n <= p < n:
                    raise IndexError("positional indexers are out-of-bounds")
            ii = _np.array(k, dtype=int)
            return Series(self.s._a[ii], index=self.s.index[ii], name=self.s.name)
        return Series(self.s._a[k], index=self.s.index[k], name=self.s.name)


class Rolling:
    """Series.rolling('<P>s', min_periods=m) on a strictly increasing DatetimeIndex (DESIGN §3.3)."""

    def __init__(self, s, window, min_periods):
        self.s = s
        if isinstance(window, str):
            v, rest = lookup_fmt(window)
            if v is None:
                m = _re.fullmatch(r"(\d+)s", window)
                if not m:
                    raise Unsupported(f"rolling window {window!r}")
                P = SInt(int(m.group(1)))
            else:
                if rest != "s":
                    raise Unsupported(f"rolling window unit {rest!r}")
                if isinstance(v, SFloat):
                    # a float number of seconds (pandas reads "2.5s" exactly, to the ns); NaN cannot be formatted into an offset
                    ex = _ex.current()
                    ex.side_condition(mk_not(v.nan), "NaN rolling window")
                    P = v
                else:
                    P = snp.cast_scalar(v, _np.dtype("int64"))
        else:
            # fixed window of `window` rows ending at each row; min_periods defaults to the window size
            self.P = None
            self.k = int(window)
            if self.k < 0:
                raise ValueError("window must be an integer 0 or greater")
            if min_periods is None:
                mp = SInt(self.k)
            else:
                mp = snp.cast_scalar(min_periods, _np.dtype("int64"))
                if bool(mp < 0):
                    raise ValueError("min_periods must be >= 0")
                if bool(mp > self.k):
                    raise ValueError(f"min_periods {int(mp)} must be <= window {self.k}")
            self.mp = mp
            return
        self.P = P
        if not isinstance(s.index, DatetimeIndex):
            raise ValueError("window must be an integer 0 or greater")
        if min_periods is None:
            mp = SInt(1)
        else:
            if isinstance(min_periods, (SFloat, float)):
                raise ValueError("min_periods must be an integer")
            mp = snp.cast_scalar(min_periods, _np.dtype("int64"))
            if bool(mp < 0):
                raise ValueError("min_periods must be >= 0")
        self.mp = mp
        ex = _ex.current()
        ts = self._tvals()
        for a, b in zip(ts, ts[1:]):
            ex.side_condition(a < b, "rolling over a non-increasing time index")
        if bool(P <= 0):
            raise Unsupported("non-positive rolling window")

    def _tvals(self):
        """index values as z3 terms: whole seconds (Int) when no stamp carries a sub-second part, else seconds as Reals"""
        stamps = list(self.s.index.arr.a)
        if any(getattr(t, "f", None) is not None for t in stamps):
            return [z3.ToReal(t.s) + (t.f if getattr(t, "f", None) is not None else 0) for t in stamps]
        return [t.s for t in stamps]

    def _windows(self):
        """For each i: list of member positions j<=i (forks on time membership)."""
        if self.P is None:
            n = len(self.s)
            return [list(range(max(0, i - self.k + 1), i + 1)) if self.k > 0 else [] for i in range(n)]
        ts = self._tvals()
        if isinstance(self.P, SFloat):
            P = self.P.v
            ts = [t if z3.is_real(t) else z3.ToReal(t) for t in ts]
        else:
            P = z3.ToReal(self.P.v) if ts and z3.is_real(ts[0]) else self.P.v
        out = []
        for i in range(len(ts)):
            mem = [i]
            for j in range(i - 1, -1, -1):
                if bool(SBool(ts[i] - P < ts[j])):
                    mem.append(j)
                else:
                    break
            out.append(sorted(mem))
        return out

    def _apply(self, fn, need_valid=True):
        vals = self.s.values_arr()
        if vals._dt.kind != "f":
            vals = vals.astype("float64")
        out = snp._obj((len(vals),))
        for i, mem in enumerate(self._windows()):
            xs = [vals.a[j] for j in mem]
            present = [x for x in xs if not bool(SBool(x.nan))]
            if bool(SInt(len(present)) < self.mp):
                out[i] = SFloat.const(float("nan"))
            else:
                out[i] = fn(xs, present)
        return Series(snp.ndarray(out, "float64"), index=self.s.index)

    def std(self, ddof=1):
        def f(xs, present):
            if len(present) - ddof <= 0:
                return SFloat.const(float("nan"))
            return snp._reduce_list(present, "std", _np.dtype("float64"), ddof)
        return self._apply(f)

    def apply(self, func, raw=False, engine=None, **kw):
        if not raw:
            raise Unsupported("rolling.apply(raw=False)")

        def f(xs, present):
            r = func(snp.ndarray.from_list(xs, "float64"))
            if r is masked:
                return SFloat.const(float("nan"))
            return snp.cast_scalar(r, _np.dtype("float64"))
        return self._apply(f)

    def mean(self):
        return self._apply(lambda xs, present: snp._reduce_list(present, "mean", _np.dtype("float64"))
                           if present else SFloat.const(float("nan")))

    def min(self):
        return self._apply(lambda xs, present: snp._reduce_list(present, "min", _np.dtype("float64"))
                           if present else SFloat.const(float("nan")))

    def max(self):
        return self._apply(lambda xs, present: snp._reduce_list(present, "max", _np.dtype("float64"))
                           if present else SFloat.const(float("nan")))


class _TimestampMeta(type):
    def __call__(cls, x=None, *a, **k):
        if a or k:
            raise Unsupported("Timestamp(...) with extra arguments")
        r = as_stime(x)
        if r is NotImplemented:
            raise TypeError(f"Cannot convert input [{x!r}] of type {type(x)} to Timestamp")
        return r

    def __instancecheck__(cls, inst):
        return isinstance(inst, STime)


class Timestamp(metaclass=_TimestampMeta):
    @staticmethod
    def now(tz=None):
        return STime(1577836800)  # an arbitrary instant inside the modelled range (2020-01-01)


def to_datetime(arg, unit=None, **kw):
    if unit != "s":
        raise Unsupported(f"to_datetime(unit={unit!r})")
    if isinstance(arg, (Sym,)) or isinstance(arg, (int, float)):
        return _epoch_scalar(arg)
    a = _arr(arg if not isinstance(arg, tuple) else list(arg))
    if a._is_masked:
        a = a._data_arr()
    k = a._dt.kind
    if a.a.ndim != 1:
        raise TypeError("arg must be a string, datetime, list, tuple, 1-d array, or Series")
    if k == "M":
        return DatetimeIndex(a.copy())
    if k in "iuf":
        out = snp._obj(a.a.shape)
        for i, x in enumerate(a.a):
            out[i] = _epoch_scalar(x)
        return DatetimeIndex(snp.ndarray(out, "datetime64[ns]" if k == "f" else "datetime64[s]"))
    if k == "O":
        if all(isinstance(x, STime) for x in a.a):
            return DatetimeIndex(snp.ndarray(a.a.copy(), "datetime64[ns]"))
        out = snp._obj(a.a.shape)
        for i, x in enumerate(a.a):
            if x is None:
                out[i] = STime(0, TRUE)
            elif isinstance(x, (SInt, SFloat, int, float)):
                out[i] = _epoch_scalar(x)
            else:
                out[i] = snp.cast_scalar(x, _np.dtype("datetime64[ns]"))
        return DatetimeIndex(snp.ndarray(out, "datetime64[ns]"))
    raise Unsupported(f"to_datetime of {a._dt}")


def _epoch_scalar(x):
    if isinstance(x, STime):
        return x
    if isinstance(x, SFloat):
        if z3.is_rational_value(x.v) or z3.is_int_value(x.v):
            from .values import _numval
            q = _numval(x.v)
            import math
            fl = math.floor(q)
            return STime(int(fl), x.nan, rv(q - fl) if q != fl else None)
        whole = z3.simplify(z3.ToInt(x.v))
        frac = z3.simplify(x.v - z3.ToReal(whole))
        return STime(whole, x.nan, frac)
    if isinstance(x, SInt):
        return STime(x.v)
    if isinstance(x, float):
        if x != x:
            return STime(0, TRUE)
        import math
        from fractions import Fraction
        fl = math.floor(x)
        return STime(int(fl), FALSE, rv(Fraction(x) - fl) if x != fl else None)
    if isinstance(x, (int, _np.integer)):
        return STime(int(x))
    raise Unsupported(f"epoch seconds from {type(x).__name__}")


def isna(x):
    if isinstance(x, Series):
        return x.isna()
    if isinstance(x, SFloat):
        return SBool(x.nan)
    return snp.isnan(x)


isnull = isna

from .symdf import DataFrame  # noqa: E402  (DataFrame model lives in its own module)


class TimedeltaIndex(Index):
    """result of pd.to_timedelta(array of timedelta64)"""

    def __init__(self, data=None, **kw):
        a = _arr(data if data is not None else [])
        if a._dt.kind != "m":
            raise Unsupported(f"TimedeltaIndex from {a._dt}")
        self.arr = a
        self.name = None

    def _map(self, f, dt="int64"):
        out = snp._obj(self.arr.a.shape)
        for i, d in enumerate(self.arr.a):
            out[i] = f(d)
        return Index(snp.ndarray(out, dt))

    @property
    def days(self):
        return self._map(lambda d: SInt(d.s / 86400))

    @property
    def seconds(self):
        return self._map(lambda d: SInt(d.s - (d.s / 86400) * 86400))

    def total_seconds(self):
        def f(d):
            v = z3.ToReal(d.s) if not z3.is_int_value(d.s) else rv(d.s.as_long())
            if getattr(d, "f", None) is not None:
                v = v + d.f
            return SFloat(d.nat, v)
        return self._map(f, "float64")


def to_timedelta(arg, unit=None, **kw):
    if isinstance(arg, (SDelta,)):
        return arg
    a = _arr(arg)
    if a._dt.kind == "m":
        return TimedeltaIndex(a)
    if a._dt.kind in "iuf" and unit in ("s", "S", "sec", "second", "seconds"):
        out = snp._obj(a.a.shape)
        for i, x in enumerate(a.a):
            t = _epoch_scalar(x)
            out[i] = SDelta(t.s, t.nat, t.f)
        return TimedeltaIndex(snp.ndarray(out, "timedelta64[ns]"))
    raise Unsupported("to_timedelta of this input")


class _TimedeltaMeta(type):
    def __call__(cls, value=None, unit=None, **kw):
        secs = kw.get("seconds", 0) + 60 * kw.get("minutes", 0) + 3600 * kw.get("hours", 0) + 86400 * kw.get("days", 0)
        if value is not None:
            if isinstance(value, SDelta):
                return value
            if unit in ("s", "S", "sec", "seconds"):
                secs = value
            else:
                from .values import as_sdelta
                r = as_sdelta(value)
                if r is NotImplemented:
                    raise Unsupported("Timedelta(value)")
                return r
        if isinstance(secs, SInt):
            return SDelta(secs.v)
        if isinstance(secs, SFloat):
            t = _epoch_scalar(secs)
            return SDelta(t.s, t.nat, t.f)
        return SDelta(int(secs))


class Timedelta(metaclass=_TimedeltaMeta):
    pass


def _series_diff(self, periods=1):
    if periods != 1:
        raise Unsupported("Series.diff(periods != 1)")
    a = self._a
    out = snp._obj(a.a.shape)
    for i in range(len(a)):
        if i == 0:
            out[i] = SFloat.const(float("nan")) if a._dt.kind in "fiu" else (SDelta(0, TRUE) if a._dt.kind in "Mm" else None)
        else:
            out[i] = a.a[i] - a.a[i - 1]
    dt = "float64" if a._dt.kind in "fiu" else "timedelta64[ns]"
    if a._dt.kind in "iu":
        for i in range(1, len(a)):
            out[i] = out[i].__sym_float__()
    return Series(snp.ndarray(out, dt), index=self.index, name=self.name)


def _series_shift(self, periods=1):
    a = self._a
    n = len(a)
    out = snp._obj(a.a.shape)
    na = SFloat.const(float("nan")) if a._dt.kind in "fiu" else (STime(0, TRUE) if a._dt.kind == "M" else SDelta(0, TRUE))
    for i in range(n):
        j = i - periods
        v = a.a[j] if 0 <= j < n else na
        out[i] = v.__sym_float__() if (a._dt.kind in "iu" and hasattr(v, "__sym_float__")) else v
    return Series(snp.ndarray(out, "float64" if a._dt.kind in "fiu" else a._dt), index=self.index, name=self.name)


def _series_fillna(self, value):
    a = self._a
    out = snp._obj(a.a.shape)
    for i, x in enumerate(a.a):
        if isinstance(x, SFloat):
            v = snp.cast_scalar(value, _np.dtype("float64"))
            out[i] = SFloat(mk_and(x.nan, v.nan), mk_if(x.nan, v.v, x.v))
        else:
            out[i] = x
    return Series(snp.ndarray(out, a._dt), index=self.index, name=self.name)


def _series_where(self, cond, other=None):
    c = _arr(cond)
    a = self._a
    o = SFloat.const(float("nan")) if other is None else other
    return Series(snp.where(c, a if a._dt.kind == "f" else a.astype("float64"), o), index=self.index, name=self.name)


def _series_between(self, left, right, inclusive="both"):
    lo = (self >= left) if inclusive in ("both", "left") else (self > left)
    hi = (self <= right) if inclusive in ("both", "right") else (self < right)
    return lo & hi


Series.diff = _series_diff
Series.shift = _series_shift
Series.fillna = _series_fillna
Series.where = _series_where
Series.mask = lambda self, cond, other=None: _series_where(self, ~(cond if isinstance(cond, Series) else Series(_arr(cond), index=self.index)), other)
Series.between = _series_between
Series.notna = lambda self: ~self.isna()
Series.notnull = Series.notna
Series.count = lambda self: snp.count_nonzero((~self.isna()).values_arr())
Series.sum = lambda self: snp.nansum(self._a)
Series.min = lambda self: snp.nanmin(self._a)
Series.max = lambda self: snp.nanmax(self._a)
Series.abs = lambda self: self._wrap(snp._unary("abs", self._a))
Series.tolist = lambda self: list(self._a.a)
Series.reset_index = lambda self, drop=False: Series(self._a, name=self.name) if drop else (_ for _ in ()).throw(Unsupported("reset_index(drop=False)"))


def notna(x):
    r = isna(x)
    return ~r


notnull = notna


def __getattr__(name):
    from .values import UnsupportedAttribute
    if name.startswith("__"):
        raise AttributeError(name)
    raise UnsupportedAttribute(f"pandas.{name}")
