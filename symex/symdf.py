"""DataFrame model for PandasStream / PandasStore (DESIGN §3.3): an ordered column map over a shared row index."""
from __future__ import annotations

import numpy as _np

from . import symnp as snp
from .values import SBool, SFloat, SInt, STime, Sym, Unsupported


def _pd():
    from . import sympd
    return sympd


class DataFrame:
    def __getattr__(self, name):
        import pandas as _rpd
        from .values import missing_attr
        cols = self.__dict__.get("_cols")
        if isinstance(cols, dict) and name in cols:
            return self[name]
        missing_attr(_rpd.DataFrame, name, "pandas.DataFrame")

    def __init__(self, data=None, index=None, columns=None, copy=None):
        sympd = _pd()
        self._cols = {}
        self._index = None
        if isinstance(data, DataFrame):
            self._cols = {k: v.copy() for k, v in data._cols.items()}
            self._index = data._index
            return
        if index is not None:
            self._index = index if isinstance(index, sympd.Index) else sympd.Index(index)
        if data is not None:
            if not isinstance(data, dict):
                raise Unsupported("DataFrame from non-dict data")
            for k, v in data.items():
                self[k] = v

    # -- structure -----------------------------------------------------------------------
    @property
    def columns(self):
        return list(self._cols)

    @property
    def index(self):
        if self._index is None:
            return _pd().RangeIndex(0)
        return self._index

    def __len__(self):
        return len(self._index) if self._index is not None else 0

    @property
    def shape(self):
        return (len(self), len(self._cols))

    @property
    def empty(self):
        return len(self) == 0 or not self._cols

    def __contains__(self, key):
        try:
            return key in self._cols
        except TypeError:
            return False

    def __iter__(self):
        return iter(self._cols)

    def keys(self):
        return list(self._cols)

    def __repr__(self):
        return f"symDataFrame(columns={list(self._cols)}, rows={len(self)})"

    def __array__(self, *a, **k):
        raise Unsupported("symbolic DataFrame handed to real numpy")

    # -- column access -------------------------------------------------------------------
    def __getitem__(self, key):
        sympd = _pd()
        if isinstance(key, (list,)):
            return self._select_cols(key)
        if isinstance(key, (sympd.Series, snp.ndarray)):
            return self._select_rows(key)
        if key not in self._cols:
            raise KeyError(key)
        return sympd.Series(self._cols[key], index=self.index, name=key)

    def __setitem__(self, key, value):
        sympd = _pd()
        if isinstance(value, sympd.Series):
            arr = value.values_arr().copy()
        elif isinstance(value, sympd.Index):
            arr = value.arr.copy()
        elif isinstance(value, snp.ndarray):
            if value._is_masked:
                arr = sympd.Series(value).values_arr()      # masked -> NaN / NaT (sanitize_masked_array)
            else:
                arr = value.copy()
        elif isinstance(value, (list, tuple, _np.ndarray)):
            arr = snp.array(value)
        elif isinstance(value, Sym) or isinstance(value, (int, float, str, bool)) or value is None:
            if self._index is None:
                raise Unsupported("scalar column on an empty frame")
            arr = snp.full((len(self),), value)
        else:
            raise Unsupported(f"DataFrame column from {type(value).__name__}")
        if arr.a.ndim != 1:
            raise ValueError(f"Expected a 1D array, got an array with shape {arr.a.shape}")
        if self._index is None:
            self._index = sympd.RangeIndex(len(arr))
        elif len(arr) != len(self._index):
            raise ValueError(f"Length of values ({len(arr)}) does not match length of index ({len(self._index)})")
        self._cols[key] = arr

    def _select_cols(self, keys):
        out = DataFrame()
        out._index = self._index
        for k in keys:
            if k not in self._cols:
                raise KeyError(f"{k!r} not in index")
            out._cols[k] = self._cols[k]
        return out

    def _select_rows(self, cond):
        sympd = _pd()
        c = cond.values_arr() if isinstance(cond, sympd.Series) else cond
        if c._dt.kind != "b":
            raise Unsupported("row selection with a non-boolean key")
        if len(c) != len(self):
            raise IndexError(f"Item wrong length {len(c)} instead of {len(self)}.")
        pos = [i for i, b in enumerate(c.a) if bool(b)]
        ii = _np.array(pos, dtype=int)
        out = DataFrame()
        out._index = type(self.index)(self.index.arr[ii]) if not isinstance(self.index, sympd.RangeIndex) else sympd.Index(self.index.arr[ii])
        for k, v in self._cols.items():
            out._cols[k] = v[ii]
        return out

    @property
    def loc(self):
        return _Loc(self)

    def copy(self):
        return DataFrame(self)

    def to_dict(self):
        return {k: v for k, v in self._cols.items()}


class _Loc:
    def __init__(self, df):
        self.df = df

    def __getitem__(self, key):
        if not isinstance(key, tuple) or len(key) != 2:
            raise Unsupported("DataFrame.loc with a non 2-tuple key")
        rows, cols = key
        df = self.df
        sympd = _pd()
        if isinstance(rows, sympd.Index) or (isinstance(rows, (snp.ndarray, list)) and not (
                isinstance(rows, snp.ndarray) and rows._dt.kind == "b")):
            # selection by row labels: every row carrying one of the labels, label by label
            pos = sympd._label_positions(df.index, rows)
            ii = _np.array(pos, dtype=int)
            out = DataFrame()
            out._index = sympd.Index(df.index.arr[ii]) if ii.size else sympd.Index(df.index.arr[:0])
            for k, v in df._cols.items():
                out._cols[k] = v[ii] if ii.size else v[:0]
            df = out
        elif not (isinstance(rows, slice) and rows == slice(None)):
            df = df._select_rows(rows)
        if isinstance(cols, slice) and cols == slice(None):
            return df
        if isinstance(cols, list):
            return df._select_cols(cols)
        return df[cols]
