"""DataFrame model for PandasStream / PandasStore (filled in with C05/C19)."""
from .values import Unsupported


class DataFrame:
    def __init__(self, *a, **k):
        raise Unsupported("DataFrame model not built yet")
