"""Symbolic model of the subset of NumPy / numpy.ma that ioos_qc uses (DESIGN §3.3).

Structure (shapes, views, slicing, aliasing) is delegated to real numpy object
arrays holding symbolic scalars; value semantics are modelled rule by rule from
numpy 1.26 (`ma/core.py`).  Anything not modelled raises `Unsupported`.
"""
from __future__ import annotations

import builtins as _bi
import contextlib
import itertools
import types
from fractions import Fraction

import numpy as _np
import z3

from . import explorer as _ex
from .values import (FALSE, TRUE, MaskedConstant, SBool, SDelta, SFloat, SInt, STime, Sym, Unsupported,
                     as_sbool, as_sdelta, as_sfloat, as_sint, as_stime, is_f, is_t, masked, mk_and, mk_eq,
                     mk_if, mk_not, mk_or, rv)

# re-exported real numpy names that are safe to share
float64 = _np.float64
float32 = _np.float32
floating = _np.floating
int64 = _np.int64
int32 = _np.int32
uint8 = _np.uint8
intp = _np.intp
int_ = _np.int_
int16 = _np.int16
int8 = _np.int8
uint16 = _np.uint16
uint32 = _np.uint32
uint64 = _np.uint64
float16 = _np.float16
bool_ = _np.bool_
datetime64 = _np.datetime64
timedelta64 = _np.timedelta64
generic = _np.generic
number = _np.number
integer = _np.integer
object_ = _np.object_
nan = _np.nan
inf = _np.inf
pi = _np.pi
newaxis = None
issubdtype = _np.issubdtype
errstate = _np.errstate
__version__ = _np.__version__

_HAVOC = itertools.count()


def dtype(t):
    from .loader import SymIntType, SymFloatType
    if isinstance(t, _np.dtype):
        return t
    if t is SymIntType or t is int:
        return _np.dtype("int64")
    if t is SymFloatType or t is float:
        return _np.dtype("float64")
    if t is bool:
        return _np.dtype("bool")
    if t is _np.floating:
        return _np.dtype("float64")
    if t is None:
        return _np.dtype("float64")
    return _np.dtype(t)


_UNIT_PER_S = {"ns": 10 ** 9, "us": 10 ** 6, "ms": 10 ** 3, "s": 1}
_S_PER_UNIT = {"m": 60, "h": 3600, "D": 86400, "W": 7 * 86400}


def _unit(dt):
    u = _np.datetime_data(dt)[0]
    if u == "generic":
        u = "ns"
    return u


def _delta_count(d, dt):
    """SDelta/STime (seconds + optional fraction) -> z3 count of dt's unit (Int; Real when a fraction is present)."""
    u = _unit(dt)
    f = getattr(d, "f", None)
    if u in _UNIT_PER_S:
        k = _UNIT_PER_S[u]
        if u == "s" or f is None:
            if z3.is_int_value(d.s):
                return z3.IntVal(d.s.as_long() * k)
            return d.s * k if k != 1 else d.s
        # finer than a second with a fraction: (s + f) * k  (f is a multiple of 1/8 s in every model we replay)
        return z3.ToReal(d.s) * k + f * k
    if u in _S_PER_UNIT:
        k = _S_PER_UNIT[u]
        # numpy truncates toward negative infinity for datetime unit conversion
        return d.s / k
    raise Unsupported(f"time unit {u}")


def _count_to_real(c):
    if z3.is_int_value(c):
        return rv(c.as_long())
    return z3.ToReal(c) if z3.is_int(c) else c


def _count_to_int(c):
    return c if z3.is_int(c) else z3.ToInt(c)


_PER_S = {"ms": 10 ** 3, "us": 10 ** 6}


def _coarsen(x, dt):
    """value of a time scalar after a cast to dtype dt: units of a second or coarser drop the sub-second fraction, ms / us floor it
    to their resolution"""
    f = getattr(x, "f", None)
    if f is None:
        return x
    u = _unit(dt)
    if u == "ns":
        return x
    if u in _PER_S:
        k = _PER_S[u]
        if _is_numeral(f):
            import math
            from .values import _numval
            q = Fraction(math.floor(_numval(f) * k), k)
            return type(x)(x.s, x.nat, rv(q) if q else None)
        return type(x)(x.s, x.nat, z3.ToReal(z3.ToInt(f * k)) / k)
    return type(x)(x.s, x.nat)


def _is_numeral(t):
    return z3.is_rational_value(t) or z3.is_int_value(t)


def havoc(dt, what="uninitialised"):
    """Fresh unconstrained value standing for uninitialised memory."""
    i = next(_HAVOC)
    k = dt.kind
    ex = _ex.current(optional=True)
    if ex is not None:
        ex.event("havoc", i)
    if k == "f":
        return SFloat(z3.Bool(f"havoc!n{i}"), z3.Real(f"havoc!v{i}"))
    if k in "iu":
        return SInt(z3.Int(f"havoc!i{i}"))
    if k == "b":
        return SBool(z3.Bool(f"havoc!b{i}"))
    if k == "M":
        return STime(z3.Int(f"havoc!t{i}"), z3.Bool(f"havoc!tn{i}"))
    if k == "m":
        return SDelta(z3.Int(f"havoc!d{i}"), z3.Bool(f"havoc!dn{i}"))
    if k == "O":
        return None
    raise Unsupported(f"havoc of dtype {dt}")


def cast_scalar(x, dt, src=None):
    """Convert a scalar to the representation used inside arrays of dtype dt."""
    k = dt.kind
    if isinstance(x, MaskedConstant):
        return x
    if k == "f":
        if x is None:
            return SFloat.const(float("nan"))
        if isinstance(x, SDelta):
            c = _delta_count(x, src if src is not None else _np.dtype("timedelta64[ns]"))
            return SFloat(x.nat, _count_to_real(c))
        if isinstance(x, STime):
            c = _delta_count(x, src if src is not None else _np.dtype("datetime64[ns]"))
            return SFloat(x.nat, _count_to_real(c))
        r = as_sfloat(x)
        if r is NotImplemented:
            if isinstance(x, str):
                raise ValueError(f"could not convert string to float: {x!r}")
            raise TypeError(f"float() argument must be a string or a real number, not {type(x).__name__}")
        return r
    if k in "iu":
        if isinstance(x, (SDelta, STime)):
            return SInt(_count_to_int(_delta_count(x, src if src is not None else _np.dtype("timedelta64[ns]"))))
        if isinstance(x, SFloat):
            return x.__sym_int__()
        if isinstance(x, float) or type(x).__name__ in ("float64", "float32"):
            return SInt(int(x))
        r = as_sint(x)
        if r is NotImplemented:
            raise TypeError(f"int() argument must be a number, not {type(x).__name__}")
        return r
    if k == "b":
        if isinstance(x, SBool):
            return x
        if isinstance(x, SInt):
            return SBool(mk_not(mk_eq(x.v, z3.IntVal(0))))
        if isinstance(x, SFloat):
            return SBool(mk_or(x.nan, mk_not(mk_eq(x.v, rv(0)))))
        if isinstance(x, (bool, int, float, _np.generic)):
            return SBool(bool(x))
        raise TypeError(f"cannot cast {type(x).__name__} to bool")
    if k == "M":
        if x is None:
            return STime(0, TRUE)
        if isinstance(x, (SInt, SFloat, int, float)) and not isinstance(x, bool):
            # numeric -> datetime64[unit]: the number is a count of `unit` since the epoch (floats are truncated)
            u = _unit(dt)
            if isinstance(x, (int, float)):
                x = as_sfloat(x) if isinstance(x, float) else SInt(x)
            if isinstance(x, SFloat):
                _ex.current().side_condition(mk_or(x.nan, x.v >= 0), "negative float -> datetime64 cast (truncation toward zero)")
                cnt, nat = z3.simplify(z3.ToInt(x.v)), x.nan
            else:
                cnt, nat = x.v, FALSE
            if u == "s":
                return STime(cnt, nat)
            if u in _S_PER_UNIT:
                return STime(cnt * _S_PER_UNIT[u], nat)
            k = _UNIT_PER_S[u]
            sec = cnt / k
            return STime(sec, nat, z3.ToReal(cnt - sec * k) / k)
        r = as_stime(x)
        if r is NotImplemented:
            raise TypeError(f"cannot cast {type(x).__name__} to datetime64")
        return _coarsen(r, dt)
    if k == "m":
        r = as_sdelta(x)
        if r is NotImplemented:
            raise TypeError(f"cannot cast {type(x).__name__} to timedelta64")
        return _coarsen(r, dt)
    if k == "O":
        return x
    raise Unsupported(f"cast to {dt}")


def ite(c, a, b):
    """If-then-else on scalars of the same representation (c: z3 Bool)."""
    if is_t(c):
        return a
    if is_f(c):
        return b
    if a is b:
        return a
    ex = _ex.current(optional=True)
    if ex is not None:
        ex.n_merges += 1        # a state-merged branch (both sides kept in one If-term)
    if isinstance(a, SFloat) and isinstance(b, SFloat):
        if a.root2 is not None or b.root2 is not None:
            raise Unsupported("merge of lazy roots")
        return SFloat(mk_if(c, a.nan, b.nan), mk_if(c, a.v, b.v))
    if isinstance(a, SInt) and isinstance(b, SInt):
        return SInt(mk_if(c, a.v, b.v))
    if isinstance(a, SBool) and isinstance(b, SBool):
        return SBool(mk_if(c, a.b, b.b))
    if isinstance(a, (STime, SDelta)) and type(a) is type(b):
        if a.f is None and b.f is None:
            return type(a)(mk_if(c, a.s, b.s), mk_if(c, a.nat, b.nat))
        fa = rv(0) if a.f is None else a.f
        fb = rv(0) if b.f is None else b.f
        return type(a)(mk_if(c, a.s, b.s), mk_if(c, a.nat, b.nat), mk_if(c, fa, fb))
    raise Unsupported(f"ite of {type(a).__name__}/{type(b).__name__}")


def _scalar_dtype(x):
    if isinstance(x, SFloat):
        return _np.dtype("float64")
    if isinstance(x, SInt):
        return _np.dtype("int64")
    if isinstance(x, SBool):
        return _np.dtype("bool")
    if isinstance(x, STime):
        return _np.dtype("datetime64[ns]")
    if isinstance(x, SDelta):
        return _np.dtype("timedelta64[ns]")
    if isinstance(x, bool):
        return _np.dtype("bool")
    if isinstance(x, int):
        return _np.dtype("int64")
    if isinstance(x, float):
        return _np.dtype("float64")
    if isinstance(x, _np.generic):
        return x.dtype
    if x is None or isinstance(x, (str, MaskedConstant)):
        return _np.dtype("object")
    tn = type(x).__name__
    if tn == "Timestamp" or tn == "datetime":
        return _np.dtype("datetime64[ns]")
    return _np.dtype("object")


def _obj(shape):
    return _np.empty(shape, dtype=object)


def _wrap0(x):
    a = _obj(())
    a[()] = x
    return a


class SymBytes(Sym):
    """ndarray.tobytes() of symbolic content (used as a cache key / fingerprint)"""
    __slots__ = ("items", "dt")

    def __init__(self, items, dt):
        self.items, self.dt = items, dt

    def _short(self):
        return f"bytes[{len(self.items)} x {self.dt}]"

    def __len__(self):
        return len(self.items) * self.dt.itemsize

    def _same(self, o):
        if not isinstance(o, SymBytes):
            if isinstance(o, (bytes, bytearray)):
                raise Unsupported("comparison of a symbolic buffer with concrete bytes")
            return None
        if len(self) != len(o):
            return FALSE
        if self.dt != o.dt:
            raise Unsupported("comparison of buffers of different dtypes")
        cs = []
        for a, b in zip(self.items, o.items):
            if isinstance(a, SFloat):
                cs.append(mk_or(mk_and(a.nan, b.nan), mk_and(mk_not(a.nan), mk_not(b.nan), mk_eq(a.v, b.v))))
            elif isinstance(a, (STime, SDelta)):
                raise Unsupported("buffer comparison of time values")
            elif isinstance(a, SInt):
                cs.append(mk_eq(a.v, b.v))
            elif isinstance(a, SBool):
                cs.append(mk_eq(a.b, b.b))
            else:
                raise Unsupported("buffer comparison of object values")
        return mk_and(*cs)

    def __eq__(self, o):
        r = self._same(o)
        return NotImplemented if r is None else SBool(r)

    def __ne__(self, o):
        r = self._same(o)
        return NotImplemented if r is None else SBool(mk_not(r))

    def __hash__(self):
        raise Unsupported("hash() of a symbolic buffer (set member / dict key)")


class LazyIdx:
    """np.where(cond)[0] + k, kept lazy (DESIGN §3.3)."""

    def __init__(self, cond, shift=0):
        self.cond = cond
        self.shift = shift

    def __add__(self, k):
        return LazyIdx(self.cond, self.shift + int(k))

    __radd__ = __add__

    def __sub__(self, k):
        return LazyIdx(self.cond, self.shift - int(k))


class ndarray:
    """Model of numpy.ndarray: real object array of symbolic scalars + a real dtype tag."""

    __array_priority__ = 100
    _is_masked = False

    def __getattr__(self, name):
        from .values import missing_attr
        missing_attr(_np.ma.MaskedArray if type(self)._is_masked else _np.ndarray, name,
                     "numpy.ma.MaskedArray" if type(self)._is_masked else "numpy.ndarray")

    def __init__(self, a, dt, root=None, owner="local"):
        self.a = a
        self._dt = dtype(dt)
        self.root = root if root is not None else self
        if root is None:
            self.owner = owner
            self.writes = 0
            self.writeable = True

    # -- construction helpers ------------------------------------------------------
    @classmethod
    def from_list(cls, xs, dt, owner="local"):
        dt = dtype(dt)
        a = _obj((len(xs),))
        for i, x in enumerate(xs):
            a[i] = cast_scalar(x, dt)
        return cls(a, dt, owner=owner)

    def _view(self, a):
        return ndarray(a, self._dt, root=self.root)

    def _new(self, a, dt=None):
        return ndarray(a, dt if dt is not None else self._dt)

    # -- basic attributes ------------------------------------------------------------
    @property
    def dtype(self):
        return self._dt

    @property
    def shape(self):
        return self.a.shape

    @property
    def ndim(self):
        return self.a.ndim

    @property
    def size(self):
        return self.a.size

    @property
    def strides(self):
        s = []
        acc = self._dt.itemsize if self._dt.kind != "O" else 8
        for d in reversed(self.a.shape):
            s.append(acc)
            acc *= d
        return tuple(reversed(s))

    @property
    def T(self):
        return self._view(self.a.T)

    @property
    def data(self):
        return self

    @property
    def flat(self):
        return iter(self.a.flat)

    def __len__(self):
        if self.a.ndim == 0:
            raise TypeError("len() of unsized object")
        return self.a.shape[0]

    def __iter__(self):
        if self.a.ndim == 0:
            raise TypeError("iteration over a 0-d array")
        for i in range(self.a.shape[0]):
            yield self[i]

    def __repr__(self):
        return f"symarray({self.a.tolist()!r}, dtype={self._dt})"

    def __bool__(self):
        if self.a.size == 1:
            return bool(self.a.flat[0])
        if self.a.size == 0:
            return False
        raise ValueError("The truth value of an array with more than one element is ambiguous.")

    def __array__(self, *a, **k):
        raise Unsupported("symbolic array handed to real numpy")

    def item(self):
        if self.a.size != 1:
            raise ValueError("can only convert an array of size 1 to a Python scalar")
        return self.a.flat[0]

    def tolist(self):
        return self.a.tolist()

    def tobytes(self, order="C"):
        """the raw buffer as an opaque value: only ==, != (element-wise bit equality; a NaN equals a NaN) are supported"""
        if self._is_masked:
            raise Unsupported("MaskedArray.tobytes")
        return SymBytes(list(self.a.flat), self._dt)

    # -- indexing ----------------------------------------------------------------------
    def _norm_index(self, idx):
        """Return ('basic', idx) | ('bool', ndarray) | ('lazy', LazyIdx) | ('fancy', intarray)."""
        from . import sympd
        if isinstance(idx, sympd.Series):
            idx = idx.values_arr()
        if isinstance(idx, sympd.Index):
            idx = idx.arr
        if isinstance(idx, LazyIdx):
            return "lazy", idx
        if isinstance(idx, ndarray):
            if idx._is_masked:
                idx = idx._data_arr()
            if idx._dt.kind == "b":
                return "bool", idx
            if idx._dt.kind in "iu":
                return "fancy", _np.array([int(x) for x in idx.a.flat], dtype=int).reshape(idx.a.shape)
            raise IndexError("arrays used as indices must be of integer (or boolean) type")
        if isinstance(idx, SBool):
            return "bool0", idx
        if isinstance(idx, (bool, _np.bool_)):
            return "bool0", SBool(bool(idx))
        if isinstance(idx, SInt):
            return "basic", int(idx)
        if isinstance(idx, _np.ndarray):
            if idx.dtype.kind == "b":
                return "bool", asarray(idx)
            return "fancy", idx
        if isinstance(idx, list):
            if idx and _bi.all(isinstance(x, (bool, _np.bool_, SBool)) for x in idx):
                return "bool", ndarray.from_list(idx, "bool")
            return "fancy", _np.array([int(x) for x in idx], dtype=int)
        if isinstance(idx, tuple):
            out = []
            for x in idx:
                if isinstance(x, SInt):
                    x = int(x)
                elif isinstance(x, slice):
                    x = _norm_slice(x)
                elif isinstance(x, (ndarray, LazyIdx, list, _np.ndarray)):
                    if len(idx) == 1:
                        return self._norm_index(x)
                    kind, v = self._norm_index(x)
                    if kind == "bool" and _bi.all(isinstance(y, slice) and y == slice(None) for y in idx if y is not x):
                        raise Unsupported("boolean index inside a tuple index")
                    raise Unsupported("array index inside a tuple index")
                out.append(x)
            return "basic", tuple(out)
        if isinstance(idx, slice):
            return "basic", _norm_slice(idx)
        if idx is None or idx is Ellipsis or isinstance(idx, (int, _np.integer)):
            return "basic", idx
        raise IndexError(f"unsupported index {type(idx).__name__}")

    def _bool_positions(self, cond):
        """Concretise a boolean index by forking on its bits; returns list of flat positions."""
        if cond.a.shape != self.a.shape:
            if cond.a.ndim == 1 and self.a.ndim >= 1 and cond.a.shape[0] == self.a.shape[0]:
                pass
            else:
                raise IndexError(
                    f"boolean index did not match indexed array; dimension is {self.a.shape} "
                    f"but corresponding boolean dimension is {cond.a.shape}")
        pos = []
        for i, c in enumerate(cond.a.flat if cond.a.shape == self.a.shape else cond.a):
            if bool(c):
                pos.append(i)
        return pos

    def __getitem__(self, idx):
        kind, v = self._norm_index(idx)
        if kind == "basic":
            r = self.a[v]
            if isinstance(r, _np.ndarray):
                return self._view(r)
            if self._dt.kind == "m" and type(r) is SDelta and _unit(self._dt) != "ns":
                return _DeltaScalar(r, self._dt)      # the scalar keeps the array's unit
            return r
        if kind == "bool0":
            if bool(v):
                return self._new(self.a.copy().reshape((1,) + self.a.shape))
            return self._new(_obj((0,) + self.a.shape))
        if kind == "bool":
            pos = self._bool_positions(v)
            if v.a.shape == self.a.shape:
                out = _obj((len(pos),))
                flat = list(self.a.flat)
                for j, p in enumerate(pos):
                    out[j] = flat[p]
                return self._new(out)
            return self._new(self.a[pos].copy())
        if kind == "lazy":
            pos = [p + v.shift for p in self._bool_positions_of(v.cond)]
            return self._new(self.a[pos].copy())
        if kind == "fancy":
            return self._new(self.a[v].copy())
        raise Unsupported(kind)

    def _bool_positions_of(self, cond):
        return [i for i, c in enumerate(cond.a.flat) if bool(c)]

    @property
    def flags(self):
        return types.SimpleNamespace(writeable=self.root.writeable, owndata=self.root is self)

    def setflags(self, write=None, **kw):
        if write is not None:
            self.root.writeable = bool(write)

    def _note_write(self):
        r = self.root
        if not r.writeable:
            raise ValueError("assignment destination is read-only")
        r.writes += 1
        if r.owner != "local":
            ex = _ex.current(optional=True)
            if ex is not None:
                ex.event("caller_write", r.owner)

    def __setitem__(self, idx, value):
        self._note_write()
        kind, v = self._norm_index(idx)
        value = _unwrap_value(value)
        if kind == "basic":
            self._assign_basic(v, value)
            return
        if kind == "bool0":
            c = v.b
            for p in _np.ndindex(self.a.shape):
                self.a[p] = ite(c, self._coerce_bcast(value, p), self.a[p])
            return
        if kind == "bool":
            if isinstance(value, ndarray) and value.a.ndim > 0:
                pos = self._bool_positions(v)
                vals = list(value.a.flat)
                if len(vals) == 1:
                    vals = vals * len(pos)
                if len(vals) != len(pos):
                    raise ValueError(
                        f"NumPy boolean array indexing assignment cannot assign {len(vals)} input values "
                        f"to the {len(pos)} output values where the mask is true")
                if v.a.shape == self.a.shape:
                    flat_idx = list(_np.ndindex(self.a.shape))
                    for p, x in zip(pos, vals):
                        self.a[flat_idx[p]] = cast_scalar(x, self._dt, getattr(value, "_dt", None))
                else:
                    for p, x in zip(pos, vals):
                        self.a[p] = cast_scalar(x, self._dt, getattr(value, "_dt", None))
                return
            if isinstance(value, ndarray):
                value = value.a[()]
            if v.a.shape != self.a.shape:
                raise IndexError(
                    f"boolean index did not match indexed array along dimension 0; dimension is "
                    f"{self.a.shape[0] if self.a.ndim else 0} but corresponding boolean dimension is "
                    f"{v.a.shape[0] if v.a.ndim else 0}")
            val = cast_scalar(value, self._dt)
            for p in _np.ndindex(self.a.shape):
                self.a[p] = ite(v.a[p].b, val, self.a[p])
            return
        if kind == "lazy":
            if isinstance(value, ndarray) and value.a.size != 1:
                # x[np.where(c)[0] + k] = array: the selected positions are concretised (forks on the undecided condition bits)
                pos = [p + v.shift for p in self._bool_positions_of(v.cond)]
                vals = list((value._data_arr() if value._is_masked else value).a.flat)
                if len(vals) != len(pos):
                    raise ValueError(f"shape mismatch: value array of shape ({len(vals)},) could not be broadcast to indexing "
                                     f"result of shape ({len(pos)},)")
                n = self.a.shape[0]
                for p, x in zip(pos, vals):
                    if not -n <= p < n:
                        raise IndexError(f"index {p} is out of bounds for axis 0 with size {n}")
                    self.a[p] = cast_scalar(x, self._dt, getattr(value, "_dt", None))
                return
            if isinstance(value, ndarray):
                value = value.a.flat[0]
            val = cast_scalar(value, self._dt)
            n = self.a.shape[0]
            for i, c in enumerate(v.cond.a.flat):
                j = i + v.shift
                if 0 <= j < n:
                    self.a[j] = ite(c.b, val, self.a[j])
                elif -n <= j < 0:
                    self.a[j] = ite(c.b, val, self.a[j])
                else:
                    if bool(c):
                        raise IndexError(f"index {j} is out of bounds for axis 0 with size {n}")
            return
        if kind == "fancy":
            if isinstance(value, ndarray):
                tgt = self.a[v]
                vals = _np.broadcast_to(value.a, tgt.shape)
                tmp = _obj(tgt.shape)
                for p in _np.ndindex(tgt.shape):
                    tmp[p] = cast_scalar(vals[p], self._dt)
                self.a[v] = tmp
            else:
                val = cast_scalar(value, self._dt)
                tgt = self.a[v]
                tmp = _obj(tgt.shape)
                for p in _np.ndindex(tgt.shape):
                    tmp[p] = val
                self.a[v] = tmp
            return
        raise Unsupported(kind)

    def _coerce_bcast(self, value, p):
        if isinstance(value, ndarray):
            return cast_scalar(_np.broadcast_to(value.a, self.a.shape)[p], self._dt)
        return cast_scalar(value, self._dt)

    def _assign_basic(self, v, value):
        tgt = self.a[v]
        if isinstance(tgt, _np.ndarray):
            if isinstance(value, ndarray):
                try:
                    src = _np.broadcast_to(value.a, tgt.shape)
                except ValueError:
                    raise ValueError(
                        f"could not broadcast input array from shape {value.a.shape} into shape {tgt.shape}")
                sdt = value._dt
                tmp = _obj(tgt.shape)
                for p in _np.ndindex(tgt.shape):
                    tmp[p] = cast_scalar(src[p], self._dt, sdt)
                self.a[v] = tmp
            else:
                val = cast_scalar(value, self._dt)
                tmp = _obj(tgt.shape)
                for p in _np.ndindex(tgt.shape):
                    tmp[p] = val
                self.a[v] = tmp
        else:
            if isinstance(value, ndarray):
                if value.a.size != 1:
                    raise ValueError("setting an array element with a sequence.")
                value = value.a.flat[0]
            self.a[v] = cast_scalar(value, self._dt)

    # -- shape ops ---------------------------------------------------------------------
    def flatten(self):
        return self._new(self.a.flatten())

    def ravel(self):
        return self._view(self.a.reshape(-1)) if self.a.flags["C_CONTIGUOUS"] else self._new(self.a.flatten())

    def reshape(self, *shape):
        if len(shape) == 1 and isinstance(shape[0], (tuple, list)):
            shape = tuple(shape[0])
        shape = tuple(int(s) for s in shape)
        try:
            r = self.a.reshape(shape)
        except ValueError:
            raise ValueError(f"cannot reshape array of size {self.a.size} into shape {shape}")
        return self._view(r) if _np.shares_memory(r, self.a) or r.size == 0 else self._new(r)

    def copy(self):
        return self._new(self.a.copy())

    def view(self, *a, **k):
        return self._view(self.a)

    def squeeze(self):
        return self._view(self.a.squeeze())

    def searchsorted(self, v, side="left", sorter=None):
        return searchsorted(self, v, side, sorter)

    def nonzero(self):
        return where(self)

    def fill(self, value):
        self._note_write()
        val = cast_scalar(value, self._dt)
        for p in _np.ndindex(self.a.shape):
            self.a[p] = val

    def astype(self, t, copy=True):
        dt = dtype(t)
        out = _obj(self.a.shape)
        for p in _np.ndindex(self.a.shape):
            out[p] = cast_scalar(self.a[p], dt, self._dt)
        return self._new(out, dt)

    # -- reductions ----------------------------------------------------------------------
    def any(self, axis=None):
        if axis is not None:
            raise Unsupported("any(axis)")
        xs = [cast_scalar(x, _np.dtype("bool")).b for x in self.a.flat]
        return SBool(mk_or(*xs))

    def all(self, axis=None):
        if axis is not None:
            raise Unsupported("all(axis)")
        xs = [cast_scalar(x, _np.dtype("bool")).b for x in self.a.flat]
        return SBool(mk_and(*xs))

    def sum(self, axis=None):
        return _reduce_plain(self, "sum", axis)

    def mean(self, axis=None):
        return _reduce_plain(self, "mean", axis)

    def min(self, axis=None):
        return _reduce_plain(self, "min", axis)

    def max(self, axis=None):
        return _reduce_plain(self, "max", axis)

    def std(self, axis=None, ddof=0):
        return _reduce_plain(self, "std", axis, ddof=ddof)

    def ptp(self, axis=None):
        return _reduce_plain(self, "ptp", axis)

    # -- operators -----------------------------------------------------------------------
    def _binop(self, o, op, rev=False):
        from . import sympd
        if isinstance(o, (sympd.Series, sympd.Index)):
            return NotImplemented
        if isinstance(o, ndarray) and o._is_masked and not self._is_masked:
            return NotImplemented
        if isinstance(o, MaskedConstant):
            return _masked_binary(op, o, self) if rev else _masked_binary(op, self, o)
        return _binary(op, o, self) if rev else _binary(op, self, o)

    def __add__(self, o):
        return self._binop(o, "+")

    def __radd__(self, o):
        return self._binop(o, "+", True)

    def __sub__(self, o):
        return self._binop(o, "-")

    def __rsub__(self, o):
        return self._binop(o, "-", True)

    def __mul__(self, o):
        return self._binop(o, "*")

    def __rmul__(self, o):
        return self._binop(o, "*", True)

    def __truediv__(self, o):
        return self._binop(o, "/")

    def __rtruediv__(self, o):
        return self._binop(o, "/", True)

    def __floordiv__(self, o):
        return self._binop(o, "//")

    def __rfloordiv__(self, o):
        return self._binop(o, "//", True)

    def __mod__(self, o):
        return self._binop(o, "%")

    def __rmod__(self, o):
        return self._binop(o, "%", True)

    def __lt__(self, o):
        return self._binop(o, "<")

    def __le__(self, o):
        return self._binop(o, "<=")

    def __gt__(self, o):
        return self._binop(o, ">")

    def __ge__(self, o):
        return self._binop(o, ">=")

    def __eq__(self, o):
        return self._binop(o, "==")

    def __ne__(self, o):
        return self._binop(o, "!=")

    def __and__(self, o):
        return self._binop(o, "&")

    def __rand__(self, o):
        return self._binop(o, "&", True)

    def __or__(self, o):
        return self._binop(o, "|")

    def __ror__(self, o):
        return self._binop(o, "|", True)

    def __xor__(self, o):
        return self._binop(o, "^")

    def __invert__(self):
        return _unary("~", self)

    def __neg__(self):
        return _unary("neg", self)

    def __abs__(self):
        return _unary("abs", self)

    __hash__ = object.__hash__


def _norm_slice(s):
    def c(x):
        if isinstance(x, SInt):
            return int(x)
        return x
    return slice(c(s.start), c(s.stop), c(s.step))


def _unwrap_value(value):
    from . import sympd
    if isinstance(value, sympd.Series):
        return value.values_arr()
    if isinstance(value, sympd.Index):
        return value.arr
    if isinstance(value, (list, tuple)):
        return array(value)
    if isinstance(value, _np.ndarray):
        return asarray(value)
    return value


# ----------------------------------------------------------------------------
# element-wise kernels
# ----------------------------------------------------------------------------

def _result_dtype(op, da, db):
    if op in ("<", "<=", ">", ">=", "==", "!="):
        return _np.dtype("bool")
    ka, kb = da.kind, db.kind
    if op in ("&", "|", "^"):
        if ka == "b" and kb == "b":
            return _np.dtype("bool")
        if ka in "biu" and kb in "biu":
            return _np.result_type(da, db)
        raise TypeError(f"ufunc 'bitwise_{op}' not supported for the input types")
    if ka == "M" or kb == "M":
        if op == "-" and ka == "M" and kb == "M":
            return _np.dtype("timedelta64[ns]") if _unit(da) == "ns" or _unit(db) == "ns" else _np.dtype(f"timedelta64[{_unit(da)}]")
        if op in "+-" and (kb == "m" or ka == "m"):
            return da if ka == "M" else db
        raise TypeError(f"ufunc {op} cannot use operands with types {da} and {db}")
    if ka == "m" or kb == "m":
        if op in "+-" and ka == "m" and kb == "m":
            return da
        if op == "/" and ka == "m" and kb == "m":
            return _np.dtype("float64")
        if op in ("/", "*") and (kb in "fiu" or ka in "fiu"):
            return da if ka == "m" else db
        raise TypeError(f"ufunc {op} cannot use operands with types {da} and {db}")
    if op == "/":
        return _np.dtype("float64")
    if ka == "O" or kb == "O":
        return _np.dtype("object")
    return _np.result_type(da, db)


def _elem_binary(op, x, y, da, db, rdt):
    if isinstance(x, MaskedConstant) or isinstance(y, MaskedConstant):
        return masked
    if op in ("&", "|", "^"):
        if rdt.kind == "b":
            x, y = cast_scalar(x, rdt), cast_scalar(y, rdt)
            return {"&": x & y, "|": x | y, "^": x ^ y}[op]
        raise Unsupported("integer bitwise op")
    if da.kind in "Mm" or db.kind in "Mm":
        if da.kind == "M":
            x = cast_scalar(x, da)
        if db.kind == "M":
            y = cast_scalar(y, db)
        if da.kind == "m":
            x = cast_scalar(x, da)
        if db.kind == "m":
            y = cast_scalar(y, db)
        if da.kind == "M" and db.kind == "O":
            y = cast_scalar(y, da)
        if db.kind == "M" and da.kind == "O":
            x = cast_scalar(x, db)
        if op in ("<", "<=", ">", ">=", "==", "!=", "+", "-"):
            r = _pyop(op, x, y)
            if r is NotImplemented:
                raise TypeError(f"unsupported operand types for {op}: {type(x).__name__}, {type(y).__name__}")
            return r
        raise Unsupported(f"time op {op}")
    if da.kind == "O" or db.kind == "O":
        if x is None or y is None:
            raise TypeError(f"unsupported operand type(s) for {op}: 'NoneType'")
        r = _pyop(op, x, y)
        if r is NotImplemented:
            raise TypeError(f"unsupported operand types for {op}")
        return r
    if op in ("<", "<=", ">", ">=", "==", "!="):
        # compare in the common numeric type
        if da.kind == "f" or db.kind == "f":
            x, y = as_sfloat_strict(x), as_sfloat_strict(y)
        elif da.kind == "b" and db.kind == "b":
            x, y = cast_scalar(x, da), cast_scalar(y, db)
        else:
            x, y = cast_scalar(x, _np.dtype("int64")), cast_scalar(y, _np.dtype("int64"))
        return _pyop(op, x, y)
    if rdt.kind == "f":
        x, y = as_sfloat_strict(x), as_sfloat_strict(y)
        if op == "/":
            return _raw_div(x, y)
        return _pyop(op, x, y)
    if rdt.kind in "iu":
        x, y = cast_scalar(x, _np.dtype("int64")), cast_scalar(y, _np.dtype("int64"))
        return _pyop(op, x, y)
    if rdt.kind == "b":
        x, y = cast_scalar(x, rdt), cast_scalar(y, rdt)
        if op == "+":
            return x | y
        if op == "*":
            return x & y
        raise TypeError("numpy boolean subtract is not supported")
    raise Unsupported(f"binary {op} for {da},{db}")


def as_sfloat_strict(x):
    r = as_sfloat(x)
    if r is NotImplemented:
        raise TypeError(f"cannot use {type(x).__name__} as float")
    return r


def _raw_div(x, y):
    """IEEE-like division for plain arrays: x/0 is inf, which the model does not represent."""
    _ex.current().side_condition(mk_or(x.nan, y.nan, mk_not(mk_eq(y.v, rv(0)))), "float division by zero (inf)")
    from .values import _arith
    return SFloat(mk_or(x.nan, y.nan), _arith("/", x.v, y.v))


def _pyop(op, x, y):
    import operator
    f = {"+": operator.add, "-": operator.sub, "*": operator.mul, "/": operator.truediv, "//": operator.floordiv, "%": operator.mod,
         "<": operator.lt, "<=": operator.le, ">": operator.gt, ">=": operator.ge, "==": operator.eq,
         "!=": operator.ne}[op]
    return f(x, y)


def _parts(x):
    """-> (object array, dtype, is_array)"""
    from . import sympd
    if isinstance(x, ndarray):
        return x.a, x._dt, True
    if hasattr(x, "__sym_array__"):
        v = x.__sym_array__()
        return v.a, v._dt, True
    if isinstance(x, (sympd.Series,)):
        v = x.values_arr()
        return v.a, v._dt, True
    if isinstance(x, sympd.Index):
        return x.arr.a, x.arr._dt, True
    if isinstance(x, _np.ndarray):
        y = asarray(x)
        return y.a, y._dt, True
    if isinstance(x, (list, tuple)):
        y = array(x)
        return y.a, y._dt, True
    return _wrap0(x), _scalar_dtype(x), False


def _binary(op, x, y):
    """Plain (unmasked) element-wise binary operation."""
    xa, xd, xarr = _parts(x)
    ya, yd, yarr = _parts(y)
    # python scalars adopt the array's kind when compatible (numpy value-based casting for scalars)
    if xarr and not yarr:
        yd = _weak(yd, xd)
    elif yarr and not xarr:
        xd = _weak(xd, yd)
    rdt = _result_dtype(op, xd, yd)
    try:
        ba, bb = _np.broadcast_arrays(xa, ya)
    except ValueError:
        raise ValueError(f"operands could not be broadcast together with shapes {xa.shape} {ya.shape}")
    out = _obj(ba.shape)
    narrow = rdt.kind in "iu" and rdt.itemsize < 8 and op in ("+", "-", "*")
    for p in _np.ndindex(ba.shape):
        r = _elem_binary(op, ba[p], bb[p], xd, yd, rdt)
        if narrow and isinstance(r, SInt):
            r = _wrap_int(r, rdt)
        out[p] = r
    if not xarr and not yarr:
        return out[()]
    return ndarray(out, rdt)


def _wrap_int(r, dt):
    """two's-complement wrap-around of integer arithmetic in a dtype narrower than 64 bits (int64 is treated as unbounded)"""
    bits = 8 * dt.itemsize
    lo = 0 if dt.kind == "u" else -(1 << (bits - 1))
    if z3.is_int_value(r.v):
        return SInt(((r.v.as_long() - lo) % (1 << bits)) + lo)
    return SInt(z3.simplify((r.v - lo) % (1 << bits) + lo))


def _weak(sd, ad):
    """dtype of a python/0-d scalar operand when combined with an array of dtype ad."""
    if sd.kind in "iub" and ad.kind in "iuf":
        return ad
    if sd.kind == "b" and ad.kind == "b":
        return ad
    if sd.kind == "f" and ad.kind == "f":
        return ad
    return sd


def _elem_unary(op, x, dt):
    if isinstance(x, MaskedConstant):
        return masked
    if op == "~":
        if dt.kind == "b":
            return ~cast_scalar(x, dt)
        raise Unsupported("integer invert")
    if op == "neg":
        return -x
    if op == "abs":
        return _bi.abs(x)
    if op == "sign":
        if dt.kind == "f":
            x = as_sfloat_strict(x)
            return SFloat(x.nan, mk_if(x.v > 0, rv(1), mk_if(x.v < 0, rv(-1), rv(0))))
        if dt.kind == "m":
            raise Unsupported("sign of timedelta")
        x = cast_scalar(x, _np.dtype("int64"))
        return SInt(mk_if(x.v > 0, z3.IntVal(1), mk_if(x.v < 0, z3.IntVal(-1), z3.IntVal(0))))
    if op == "isnan":
        if dt.kind == "f":
            return SBool(as_sfloat_strict(x).nan)
        if dt.kind in "iub":
            return SBool(False)
        if dt.kind in "Mm":
            return SBool(x.nat)
        raise TypeError("ufunc 'isnan' not supported for the input types")
    if op == "isfinite":
        if dt.kind == "f":
            return SBool(mk_not(as_sfloat_strict(x).nan))
        if dt.kind in "iub":
            return SBool(True)
        if dt.kind in "Mm":
            return SBool(mk_not(x.nat))
        raise TypeError("ufunc 'isfinite' not supported for the input types")
    if op == "isnat":
        if dt.kind in "Mm":
            return SBool(x.nat)
        raise TypeError("ufunc 'isnat' is only defined for datetime and timedelta.")
    raise Unsupported(op)


def _unary(op, x):
    xa, xd, xarr = _parts(x)
    rdt = xd
    if op in ("isnan", "isfinite", "isnat"):
        rdt = _np.dtype("bool")
    out = _obj(xa.shape)
    for p in _np.ndindex(xa.shape):
        out[p] = _elem_unary(op, xa[p], xd)
    if not xarr:
        return out[()]
    if isinstance(x, ndarray) and x._is_masked:
        return MaskedArray(ndarray(out, rdt), x._mask_copy())
    return ndarray(out, rdt)


# ----------------------------------------------------------------------------
# reductions
# ----------------------------------------------------------------------------

def _fmin(a, b):
    # numpy minimum propagates NaN
    return SFloat(mk_or(a.nan, b.nan), mk_if(a.v <= b.v, a.v, b.v))


def _fmax(a, b):
    return SFloat(mk_or(a.nan, b.nan), mk_if(a.v >= b.v, a.v, b.v))


def _reduce_list(xs, kind, dt, ddof=0):
    """Reduce a python list of scalars (already unmasked)."""
    n = len(xs)
    if dt.kind == "b" and kind in ("sum", "mean"):
        xs = [x._as_int() for x in xs]
        dt = _np.dtype("int64")
    if dt.kind in "iu" and kind in ("mean", "std"):
        xs = [x.__sym_float__() for x in xs]
        dt = _np.dtype("float64")
    if kind == "sum":
        acc = cast_scalar(0, dt) if dt.kind != "m" else SDelta(0)
        for x in xs:
            acc = acc + x
        return acc
    if kind == "mean":
        if n == 0:
            return SFloat.const(float("nan"))
        if dt.kind == "m":
            raise Unsupported("mean of timedelta")
        acc = xs[0]
        for x in xs[1:]:
            acc = acc + x
        return acc / n
    if kind in ("min", "max"):
        if n == 0:
            raise ValueError(f"zero-size array to reduction operation {'minimum' if kind == 'min' else 'maximum'} "
                             "which has no identity")
        acc = xs[0]
        for x in xs[1:]:
            if dt.kind == "f":
                acc = _fmin(acc, x) if kind == "min" else _fmax(acc, x)
            elif dt.kind in "iu":
                c = (x.v < acc.v) if kind == "min" else (x.v > acc.v)
                acc = SInt(mk_if(c, x.v, acc.v))
            elif dt.kind in "Mm":
                c = (x.s < acc.s) if kind == "min" else (x.s > acc.s)
                acc = type(x)(mk_if(c, x.s, acc.s), mk_or(x.nat, acc.nat))
            else:
                raise Unsupported(f"{kind} of {dt}")
        return acc
    if kind == "ptp":
        return _reduce_list(xs, "max", dt) - _reduce_list(xs, "min", dt)
    if kind == "std":
        if n - ddof <= 0:
            return SFloat.const(float("nan"))
        # exact variance; the square root stays lazy (DESIGN §4)
        nanf = mk_or(*[x.nan for x in xs])
        s = xs[0].v
        for x in xs[1:]:
            s = s + x.v
        mean = s / n
        var = None
        for x in xs:
            d = x.v - mean
            var = d * d if var is None else var + d * d
        var = var / (n - ddof)
        if n == 1:
            return SFloat(nanf, rv(0))
        return SFloat(nanf, z3.Real(f"root!{next(_HAVOC)}"), root2=var)
    raise Unsupported(f"reduction {kind}")


def _reduce_plain(x, kind, axis=None, ddof=0):
    if axis is None:
        return _reduce_list(list(x.a.flat), kind, x._dt, ddof)
    if x.a.ndim != 2 or axis not in (1, -1):
        raise Unsupported(f"{kind}(axis={axis}) on {x.a.ndim}-d")
    out = _obj((x.a.shape[0],))
    for i in range(x.a.shape[0]):
        out[i] = _reduce_list(list(x.a[i]), kind, x._dt, ddof)
    rdt = x._dt if kind in ("min", "max", "sum", "ptp") else _np.dtype("float64")
    return ndarray(out, rdt)


# ----------------------------------------------------------------------------
# masked arrays
# ----------------------------------------------------------------------------

class MaskedArray(ndarray):
    _is_masked = True

    def __init__(self, data, mask=None, dtype=None, fill_value=None, copy=False, **kw):
        # used both internally (ndarray data + ndarray/None mask) and as the public constructor
        if kw.get("data") is not None:
            data = kw["data"]
        src_mask = None
        if not isinstance(data, ndarray) or data._is_masked:
            if isinstance(data, ndarray) and data._is_masked:
                src_mask = data._mask
                data = data._data_arr()
            else:
                tmp = array(data)
                if tmp._is_masked:
                    src_mask = tmp._mask
                    tmp = tmp._data_arr()
                data = tmp
        if dtype is not None:
            data = data.astype(dtype)
        elif copy:
            data = data.copy()
        ndarray.__init__(self, data.a, data._dt, root=data.root)
        if mask is None or mask is nomask:
            m = None
        elif isinstance(mask, ndarray):
            m = mask._data_arr() if mask._is_masked else mask
            if m._dt.kind != "b":
                m = m.astype("bool")
        elif isinstance(mask, (bool, _np.bool_, SBool)):
            m = ndarray(_obj(self.a.shape), "bool")
            m.fill(mask)
        else:
            m = array(mask).astype("bool")
        if m is not None and m.a.shape != self.a.shape:
            if m.a.size == self.a.size:
                m = m.reshape(self.a.shape)
            else:
                raise MaskError(f"Mask and data not compatible: data size is {self.a.size}, mask size is {m.a.size}.")
        if src_mask is not None:
            if m is None:
                m = src_mask
            else:
                m = _binary("|", m, src_mask)
        self._mask = m
        self.fill_value = fill_value

    # helpers
    def _data_arr(self):
        return ndarray(self.a, self._dt, root=self.root)

    def _maskarray(self):
        if self._mask is None:
            m = ndarray(_obj(self.a.shape), "bool")
            m.fill(False)
            return m
        return self._mask

    def _mask_copy(self):
        return None if self._mask is None else self._mask.copy()

    def _view(self, a):
        raise Unsupported("internal: masked view without mask")

    def _new(self, a, dt=None):
        return MaskedArray(ndarray(a, dt if dt is not None else self._dt), None)

    @property
    def data(self):
        return self._data_arr()

    @property
    def _data(self):
        return self._data_arr()

    @property
    def mask(self):
        if self._mask is None:
            return SBool(False)
        return self._mask

    @mask.setter
    def mask(self, m):
        if m is nomask or m is None:
            self._mask = None
        else:
            self._mask = MaskedArray(self._data_arr(), m)._mask

    def __repr__(self):
        return f"symmasked(data={self.a.tolist()!r}, mask={None if self._mask is None else self._mask.a.tolist()!r}, dtype={self._dt})"

    def __iter__(self):
        for i in range(len(self)):
            yield self[i]

    def __getitem__(self, idx):
        kind, v = self._norm_index(idx)
        d = self._data_arr()
        if kind == "basic":
            r = self.a[v]
            if isinstance(r, _np.ndarray):
                dv = ndarray(r, self._dt, root=self.root)
                mv = None if self._mask is None else ndarray(self._mask.a[v], "bool", root=self._mask.root)
                return MaskedArray(dv, mv)
            if self._mask is not None and bool(self._mask.a[v]):
                return masked
            return r
        dout = d.__getitem__(idx)
        mout = None if self._mask is None else self._mask.__getitem__(idx)
        return MaskedArray(dout, mout)

    def __setitem__(self, idx, value):
        value = _unwrap_value(value)
        d = self._data_arr()
        if value is masked:
            if self._mask is None:
                self._mask = self._maskarray()
            self._mask[idx] = True
            return
        if isinstance(value, ndarray) and value._is_masked:
            dval, mval = value._data_arr(), value._mask
        else:
            dval, mval = value, None
        idx_masked = isinstance(idx, ndarray) and idx._is_masked
        if self._mask is None:
            d[idx] = dval
            if mval is not None:
                self._mask = self._maskarray()
                self._mask[idx] = mval
        else:
            if idx_masked and not (isinstance(value, ndarray) and value._is_masked):
                d[idx._data_arr()] = dval
            else:
                d[idx] = dval
                self._mask[idx] = mval if mval is not None else False

    # shape ops
    def flatten(self):
        return MaskedArray(self._data_arr().flatten(), None if self._mask is None else self._mask.flatten())

    def ravel(self):
        return self.flatten()

    def reshape(self, *shape):
        return MaskedArray(self._data_arr().reshape(*shape),
                           None if self._mask is None else self._mask.reshape(*shape))

    def copy(self):
        return MaskedArray(self._data_arr().copy(), self._mask_copy())

    def view(self, *a, **k):
        return MaskedArray(self._data_arr(), self._mask)

    def astype(self, t, copy=True):
        return MaskedArray(self._data_arr().astype(t), self._mask_copy())

    def fill(self, value):
        self._data_arr().fill(value)

    def filled(self, fill_value=None):
        return filled(self, fill_value)

    def count(self, axis=None):
        if axis is not None:
            if self.a.ndim != 2 or axis not in (1, -1, 0):
                raise Unsupported(f"count(axis={axis}) on {self.a.ndim}-d")
            m = self._maskarray().a
            if axis == 0:
                m = m.T
            out = _obj((m.shape[0],))
            for i in range(m.shape[0]):
                acc = SInt(0)
                for x in m[i]:
                    acc = acc + (~x)._as_int()
                out[i] = acc
            return ndarray(out, "int64")
        if self._mask is None:
            return SInt(self.a.size)
        acc = SInt(0)
        for m in self._mask.a.flat:
            acc = acc + (~m)._as_int()
        return acc

    def _unmasked_reduce(self, kind, axis=None, ddof=0):
        """Reductions over unmasked entries; forks on mask bits (count decides the arithmetic)."""
        if axis is None:
            xs = self._unmasked_list(list(self.a.flat), None if self._mask is None else list(self._mask.a.flat))
            if not xs:
                if kind in ("min", "max", "ptp") and self.a.size == 0:
                    raise ValueError("zero-size array to reduction operation "
                                     f"{'minimum' if kind == 'min' else 'maximum'} which has no identity")
                return masked
            if kind == "std" and len(xs) - ddof <= 0:
                return masked
            return _reduce_list(xs, kind, self._dt, ddof)
        if self.a.ndim != 2 or axis not in (1, -1):
            raise Unsupported(f"masked {kind}(axis={axis})")
        rows = self.a.shape[0]
        out = _obj((rows,))
        mout = _obj((rows,))
        for i in range(rows):
            xs = list(self.a[i])
            ms = None if self._mask is None else list(self._mask.a[i])
            if kind in ("min", "max") and self._dt.kind == "f":
                # state-merged: min/max over unmasked entries without forking
                out[i], mout[i] = _masked_minmax(xs, ms, kind)
            else:
                u = self._unmasked_list(xs, ms)
                if not u:
                    out[i], mout[i] = cast_scalar(0, self._dt), SBool(True)
                else:
                    out[i], mout[i] = _reduce_list(u, kind, self._dt, ddof), SBool(False)
        return MaskedArray(ndarray(out, self._dt), ndarray(mout, "bool"))

    @staticmethod
    def _unmasked_list(xs, ms):
        if ms is None:
            return xs
        return [x for x, m in zip(xs, ms) if not bool(m)]

    def min(self, axis=None):
        return self._unmasked_reduce("min", axis)

    def max(self, axis=None):
        return self._unmasked_reduce("max", axis)

    def sum(self, axis=None):
        return self._unmasked_reduce("sum", axis)

    def mean(self, axis=None):
        return self._unmasked_reduce("mean", axis)

    def std(self, axis=None, ddof=0):
        return self._unmasked_reduce("std", axis, ddof)

    def ptp(self, axis=None):
        return self._unmasked_reduce("ptp", axis)

    def any(self, axis=None):
        if axis is not None:
            raise Unsupported("any(axis)")
        if self.a.size == 0:
            return SBool(False)
        ms = self._maskarray()
        terms = [mk_and(mk_not(m.b), cast_scalar(x, _np.dtype("bool")).b) for x, m in zip(self.a.flat, ms.a.flat)]
        allmasked = mk_and(*[m.b for m in ms.a.flat])
        if is_t(allmasked):
            return masked
        if not is_f(allmasked) and bool(SBool(allmasked)):
            return masked
        return SBool(mk_or(*terms))

    def all(self, axis=None):
        if axis is not None:
            raise Unsupported("all(axis)")
        if self.a.size == 0:
            return SBool(True)
        ms = self._maskarray()
        terms = [mk_or(m.b, cast_scalar(x, _np.dtype("bool")).b) for x, m in zip(self.a.flat, ms.a.flat)]
        allmasked = mk_and(*[m.b for m in ms.a.flat])
        if is_t(allmasked):
            return masked
        if not is_f(allmasked) and bool(SBool(allmasked)):
            return masked
        return SBool(mk_and(*terms))

    # operators: masked semantics (numpy.ma _MaskedBinaryOperation / _DomainedBinaryOperation / _comparison)
    def _binop(self, o, op, rev=False):
        from . import sympd
        if isinstance(o, (sympd.Series, sympd.Index)):
            return NotImplemented
        return _masked_binary(op, o, self) if rev else _masked_binary(op, self, o)

    def __invert__(self):
        return _unary("~", self)

    def __neg__(self):
        return _unary("neg", self)

    def __abs__(self):
        return _unary("abs", self)

    __hash__ = object.__hash__


class MaskError(Exception):
    pass


def _masked_minmax(xs, ms, kind):
    """(value, allmasked) of min/max over unmasked float entries, merged with Ifs."""
    have = FALSE
    accv = rv(0)
    accn = FALSE
    for i, x in enumerate(xs):
        m = FALSE if ms is None else ms[i].b
        use = mk_not(m)
        better = (x.v < accv) if kind == "min" else (x.v > accv)
        take = mk_and(use, mk_or(mk_not(have), better))
        accv = mk_if(take, x.v, accv)
        accn = mk_or(accn, mk_and(use, x.nan))
        have = mk_or(have, use)
    return SFloat(accn, accv), SBool(mk_not(have))


def _mask_parts(x):
    """-> (data operand for _binary, mask object-array or None)"""
    if isinstance(x, ndarray) and x._is_masked:
        return x._data_arr(), (None if x._mask is None else x._mask.a)
    return x, None


def _masked_const_array():
    # numpy.ma.masked is a 0-d float64 MaskedArray with data 0.0
    return MaskedArray(ndarray(_wrap0(SFloat.const(0.0)), "float64"), ndarray(_wrap0(SBool(True)), "bool"))


def _masked_binary(op, x, y):
    if isinstance(x, MaskedConstant):
        x = _masked_const_array()
    if isinstance(y, MaskedConstant):
        y = _masked_const_array()
    dx, mx = _mask_parts(x)
    dy, my = _mask_parts(y)
    if False:
        # arithmetic with the masked constant: everything masked, data of the array operand kept
        arr = x if isinstance(x, ndarray) else y
        d = arr._data_arr().copy() if arr._is_masked else asarray(arr).copy()
        m = ndarray(_obj(d.a.shape), "bool")
        m.fill(True)
        if op in ("<", "<=", ">", ">=", "==", "!="):
            d = d.astype("bool") if d._dt.kind != "b" else d
            return MaskedArray(ndarray(d.a, "bool"), m)
        return MaskedArray(d.astype("float64") if op == "/" else d, m)
    extra_mask = None
    if op == "/":
        dr = _binary_div_masked(dx, dy)
        rdata, extra_mask = dr.res, dr.dom
    else:
        r = _binary(op, dx, dy)
        if not isinstance(r, ndarray):
            # 0-d result
            ms = [m.flat[0].b for m in (mx, my) if m is not None]
            if ms and bool(SBool(mk_or(*ms))):
                return masked
            return r
        rdata = r
    shape = rdata.a.shape
    if mx is None and my is None and extra_mask is None:
        return MaskedArray(rdata, None)
    m = _obj(shape)
    bmx = None if mx is None else _np.broadcast_to(mx, shape)
    bmy = None if my is None else _np.broadcast_to(my, shape)
    for p in _np.ndindex(shape):
        parts = []
        if bmx is not None:
            parts.append(bmx[p].b)
        if bmy is not None:
            parts.append(bmy[p].b)
        if extra_mask is not None:
            parts.append(extra_mask[p])
        m[p] = SBool(mk_or(*parts))
    is_cmp = op in ("<", "<=", ">", ">=", "==", "!=")
    if is_cmp:
        if op in ("==", "!=") and (bmx is not None or bmy is not None):
            for p in _np.ndindex(shape):
                a = bmx[p] if bmx is not None else SBool(False)
                b = bmy[p] if bmy is not None else SBool(False)
                alt = (a == b) if op == "==" else (a != b)
                rdata.a[p] = ite(m[p].b, alt, rdata.a[p])
        return MaskedArray(rdata, ndarray(m, "bool"))
    if op in ("&", "|", "^"):
        # ufunc path (__array_wrap__): raw data, union mask
        return MaskedArray(rdata, ndarray(m, "bool"))
    # arithmetic: result data reverts to the first operand's data where masked
    if isinstance(dx, ndarray):
        da = _np.broadcast_to(dx.a, shape)
        dxt = dx._dt
    else:
        da = _np.broadcast_to(_wrap0(dx), shape)
        dxt = _scalar_dtype(dx)
    for p in _np.ndindex(shape):
        if is_f(m[p].b):
            continue
        try:
            alt = cast_scalar(da[p], rdata._dt, dxt)
        except Exception:
            continue
        rdata.a[p] = ite(m[p].b, alt, rdata.a[p])
    return MaskedArray(rdata, ndarray(m, "bool"))


class _DivRes:
    def __init__(self, res, dom):
        self.res, self.dom = res, dom


def _binary_div_masked(dx, dy):
    """Domained true_divide: positions with zero divisor or non-finite result are masked."""
    xa, xd, _ = _parts(dx)
    ya, yd, _ = _parts(dy)
    if xd.kind in "Mm" or yd.kind in "Mm":
        raise Unsupported("masked division of time values")
    ba, bb = _np.broadcast_arrays(xa, ya)
    out = _obj(ba.shape)
    dom = _obj(ba.shape)
    from .values import _arith
    for p in _np.ndindex(ba.shape):
        x, y = as_sfloat_strict(ba[p]), as_sfloat_strict(bb[p])
        zero = mk_and(mk_not(y.nan), mk_eq(y.v, rv(0)))
        nanr = mk_or(x.nan, y.nan)
        out[p] = SFloat(nanr, _arith("/", x.v, y.v))
        dom[p] = mk_or(zero, nanr)
    r = _DivRes(ndarray(out, "float64"), dom)
    return r


def _is_arr(x):
    return isinstance(x, ndarray)




# ----------------------------------------------------------------------------
# module-level functions
# ----------------------------------------------------------------------------

def array(obj, dtype=None, copy=True, owner="local", **kw):
    from . import sympd
    dt = None if dtype is None else globals()["dtype"](dtype)
    if hasattr(obj, "__sym_array__"):
        obj = obj.__sym_array__()
    if isinstance(obj, ndarray):
        d = obj._data_arr() if obj._is_masked else obj
        r = d.copy() if dt is None else d.astype(dt)
        return r
    if isinstance(obj, (sympd.Series,)):
        return array(obj.values_arr(), dtype=dtype)
    if isinstance(obj, sympd.Index):
        return array(obj.arr, dtype=dtype)
    if isinstance(obj, _np.ndarray):
        r = asarray(obj)
        return r if dt is None else r.astype(dt)
    if isinstance(obj, (list, tuple)):
        if _bi.any(isinstance(x, (list, tuple, ndarray)) for x in obj):
            rows = [array(x) for x in obj]
            if len({r.a.shape for r in rows}) != 1:
                raise ValueError("setting an array element with a sequence. The requested array has an "
                                 "inhomogeneous shape")
            a = _obj((len(rows),) + rows[0].a.shape)
            for i, r in enumerate(rows):
                a[i] = r.a
            rdt = rows[0]._dt if rows else _np.dtype("float64")
            r = ndarray(a, rdt)
            return r if dt is None else r.astype(dt)
        if len(obj) == 0:
            return ndarray(_obj((0,)), dt if dt is not None else "float64")
        dts = [_scalar_dtype(x) for x in obj]
        if _bi.any(d.kind == "O" for d in dts):
            el = _np.dtype("object")
        elif _bi.any(d.kind == "M" for d in dts):
            el = _np.dtype("datetime64[ns]") if _bi.all(d.kind == "M" for d in dts) else _np.dtype("object")
        elif _bi.any(d.kind == "m" for d in dts):
            el = _np.dtype("timedelta64[ns]")
        else:
            el = _np.result_type(*dts)
        a = _obj((len(obj),))
        for i, x in enumerate(obj):
            a[i] = cast_scalar(x, el) if el.kind != "O" else x
        r = ndarray(a, el)
        return r if dt is None else r.astype(dt)
    if isinstance(obj, dict):
        a = _obj(())
        a[()] = obj
        return ndarray(a, "object")
    # scalar -> 0-d
    sdt = _scalar_dtype(obj)
    a = _obj(())
    a[()] = cast_scalar(obj, sdt) if sdt.kind != "O" else obj
    r = ndarray(a, sdt)
    return r if dt is None else r.astype(dt)


def asarray(obj, dtype=None):
    if hasattr(obj, "__sym_array__"):
        obj = obj.__sym_array__().copy()
    if isinstance(obj, ndarray) and not obj._is_masked:
        if dtype is None or globals()["dtype"](dtype) == obj._dt:
            return obj
        return obj.astype(dtype)
    if isinstance(obj, ndarray):
        d = obj._data_arr()
        return d if dtype is None else d.astype(dtype)
    if isinstance(obj, _np.ndarray):
        if obj.dtype.kind == "O":
            a = _obj(obj.shape)
            for p in _np.ndindex(obj.shape):
                a[p] = obj[p]
            return ndarray(a, "object")
        a = _obj(obj.shape)
        for p in _np.ndindex(obj.shape):
            a[p] = cast_scalar(obj[p], obj.dtype)
        r = ndarray(a, obj.dtype)
        return r if dtype is None else r.astype(dtype)
    return array(obj, dtype=dtype)


def asanyarray(obj, dtype=None):
    if isinstance(obj, ndarray):
        return obj if dtype is None else obj.astype(dtype)
    return asarray(obj, dtype)


def _shape(shape):
    if isinstance(shape, (int, _np.integer, SInt)):
        return (int(shape),)
    return tuple(int(s) for s in shape)


def full(shape, fill_value, dtype=None):
    shape = _shape(shape)
    dt = globals()["dtype"](dtype) if dtype is not None else _scalar_dtype(fill_value)
    a = ndarray(_obj(shape), dt)
    a.fill(fill_value)
    return a


def zeros(shape, dtype=float):
    return full(shape, 0, globals()["dtype"](dtype))


def ones(shape, dtype=float):
    return full(shape, 1, globals()["dtype"](dtype))


def empty(shape, dtype=float):
    shape = _shape(shape)
    dt = globals()["dtype"](dtype)
    a = _obj(shape)
    for p in _np.ndindex(shape):
        a[p] = havoc(dt)
    return ndarray(a, dt)


def _like_shape(x):
    if isinstance(x, ndarray):
        return x.a.shape, x._dt
    if isinstance(x, dict):
        return (), _np.dtype("object")
    y = asarray(x)
    return y.a.shape, y._dt


def full_like(x, fill_value, dtype=None):
    shape, dt = _like_shape(x)
    r = full(shape, fill_value, dtype if dtype is not None else dt)
    if isinstance(x, ndarray) and x._is_masked:
        return MaskedArray(r, x._mask_copy())       # subok: a masked prototype gives a masked result with a copy of its mask
    return r


def ones_like(x, dtype=None):
    shape, dt = _like_shape(x)
    r = full(shape, 1, dtype if dtype is not None else dt)
    if isinstance(x, ndarray) and x._is_masked:
        return MaskedArray(r, x._mask_copy())
    return r


def zeros_like(x, dtype=None):
    shape, dt = _like_shape(x)
    r = full(shape, 0, dtype if dtype is not None else dt)
    if isinstance(x, ndarray) and x._is_masked:
        return MaskedArray(r, x._mask_copy())
    return r


def empty_like(x, dtype=None):
    shape, dt = _like_shape(x)
    r = empty(shape, dtype if dtype is not None else dt)
    if isinstance(x, ndarray) and x._is_masked:
        return MaskedArray(r, x._mask_copy())
    return r


def copy(x, order="K", subok=False):
    if isinstance(x, ndarray):
        if x._is_masked and not subok:
            return x._data_arr().copy()      # numpy.copy(subok=False) of a masked array is a plain ndarray of its data
        return x.copy()
    return array(x)


def where(cond, *args):
    if not args:
        c = cond if isinstance(cond, ndarray) else asarray(cond)
        if c._is_masked:
            # C-level PyArray_Where: works on the raw data buffer of the (masked) condition
            c = c._data_arr()
        if c._dt.kind != "b":
            c = c.astype("bool")
        if c.a.ndim != 1:
            raise Unsupported("np.where on n-d")
        return (LazyIdx(c),)
    x, y = args
    ca, _, _ = _parts(cond)
    xa, xd, _ = _parts(x)
    ya, yd, _ = _parts(y)
    rdt = _np.result_type(xd, yd) if xd.kind != "O" and yd.kind != "O" else _np.dtype("object")
    bc, bx, by = _np.broadcast_arrays(ca, xa, ya)
    out = _obj(bc.shape)
    for p in _np.ndindex(bc.shape):
        out[p] = ite(cast_scalar(bc[p], _np.dtype("bool")).b, cast_scalar(bx[p], rdt, xd), cast_scalar(by[p], rdt, yd))
    return ndarray(out, rdt)


def nonzero(c):
    return where(c)


def diff(x, n=1, axis=-1):
    if n != 1:
        raise Unsupported("diff n!=1")
    if isinstance(x, (list, tuple)):
        x = array(x)
    if not isinstance(x, ndarray):
        from . import sympd
        if isinstance(x, sympd.Index):
            x = x.arr
        elif isinstance(x, sympd.Series):
            x = x.values_arr()
        else:
            x = asarray(x)
    if x.a.ndim != 1:
        raise Unsupported("diff n-d")
    if x._dt.kind == "b":
        return not_equal(x[1:], x[:-1])
    # np.diff applies the *ufunc* np.subtract: on masked arrays that is raw data + union of masks
    return subtract(x[1:], x[:-1])


def _ufunc_finish(res, a, k, nin):
    """out= / where= of a ufunc call: store into `out` (through views), element-wise under `where`"""
    k = dict(k)
    out = k.pop("out", None)
    where = k.pop("where", True)
    if len(a) > 1 or (a and out is not None):
        raise Unsupported("ufunc called with extra positional arguments")
    if a:
        out = a[0]
    for kk in list(k):
        if kk in ("casting", "order", "subok") or (kk == "dtype" and k[kk] is None):
            k.pop(kk)
    if k:
        raise Unsupported(f"ufunc keyword arguments {sorted(k)}")
    if isinstance(out, tuple):
        if len(out) != 1:
            raise Unsupported("ufunc with several outputs")
        out = out[0]
    if out is None:
        if where is not True:
            raise Unsupported("ufunc where= without out= (uninitialised result elements)")
        return res
    if not isinstance(out, ndarray):
        raise TypeError("return arrays must be of ArrayType")
    r = res if isinstance(res, ndarray) else asarray(res)
    rd = r._data_arr() if r._is_masked else r
    od = out._data_arr() if out._is_masked else out
    try:
        src = _np.broadcast_to(rd.a, od.a.shape)
    except ValueError:
        raise ValueError(f"non-broadcastable output operand with shape {od.a.shape} doesn't match the broadcast shape {rd.a.shape}")
    od._note_write()
    if where is True:
        for p in _np.ndindex(od.a.shape):
            od.a[p] = cast_scalar(src[p], od._dt)
    else:
        w = where if isinstance(where, ndarray) else asarray(where)
        wa = _np.broadcast_to((w._data_arr() if w._is_masked else w).a, od.a.shape)
        for p in _np.ndindex(od.a.shape):
            c = wa[p]
            c = c.b if isinstance(c, SBool) else (TRUE if c else FALSE)
            od.a[p] = ite(c, cast_scalar(src[p], od._dt), od.a[p])
    if out._is_masked and r._is_masked and r._mask is not None:
        raise Unsupported("ufunc out= into a masked array from a masked result")
    return out


def _ufunc1(op):
    def f(x, *a, **k):
        if a or k:
            return _ufunc_finish(f(x), a, k, 1)
        from . import sympd
        if isinstance(x, sympd.Series):
            return x._wrap(_unary(op, x.values_arr()))
        if isinstance(x, sympd.Index):
            return _unary(op, x.arr)
        if isinstance(x, (list, tuple)):
            x = array(x)
        if isinstance(x, _np.ndarray):
            x = asarray(x)
        if isinstance(x, MaskedConstant):
            return x
        if op == "abs" and isinstance(x, ndarray) and x._dt.kind == "m":
            raise Unsupported("abs of timedelta array")
        return _unary(op, x)
    f.__name__ = op
    return f


abs = absolute = _ufunc1("abs")
sign = _ufunc1("sign")
isnan = _ufunc1("isnan")
isfinite = _ufunc1("isfinite")
isnat = _ufunc1("isnat")
negative = _ufunc1("neg")
invert = bitwise_not = logical_not = _ufunc1("~")


def isinf(x):
    r = isnan(x)
    if isinstance(r, ndarray):
        z = full(r.a.shape, False, "bool")
        if r._is_masked:
            return MaskedArray(z, r._mask_copy())
        return z
    return SBool(False)


def _ufunc2(op):
    def f(x, y, *a, **k):
        if a or k:
            return _ufunc_finish(f(x, y), a, k, 2)
        if (isinstance(x, ndarray) and x._is_masked) or (isinstance(y, ndarray) and y._is_masked):
            # ufunc via __array_wrap__: raw data, union of masks
            dx, mx = _mask_parts(x)
            dy, my = _mask_parts(y)
            r = _binary2(op, dx, dy)
            shape = r.a.shape
            if mx is None and my is None:
                return MaskedArray(r, None)
            m = _obj(shape)
            bmx = None if mx is None else _np.broadcast_to(mx, shape)
            bmy = None if my is None else _np.broadcast_to(my, shape)
            for p in _np.ndindex(shape):
                m[p] = SBool(mk_or(*([bmx[p].b] if bmx is not None else []), *([bmy[p].b] if bmy is not None else [])))
            return MaskedArray(r, ndarray(m, "bool"))
        return _binary2(op, x, y)
    f.__name__ = op
    return f


def _binary2(op, x, y):
    if op in ("minimum", "maximum"):
        xa, xd, xarr = _parts(x)
        ya, yd, yarr = _parts(y)
        ba, bb = _np.broadcast_arrays(xa, ya)
        out = _obj(ba.shape)
        rdt = _np.result_type(xd, yd)
        for p in _np.ndindex(ba.shape):
            if rdt.kind == "f":
                a, b = as_sfloat_strict(ba[p]), as_sfloat_strict(bb[p])
                out[p] = _fmin(a, b) if op == "minimum" else _fmax(a, b)
            else:
                a, b = cast_scalar(ba[p], rdt), cast_scalar(bb[p], rdt)
                c = (a.v <= b.v) if op == "minimum" else (a.v >= b.v)
                out[p] = SInt(mk_if(c, a.v, b.v))
        if not xarr and not yarr:
            return out[()]
        return ndarray(out, rdt)
    return _binary({"logical_and": "&", "logical_or": "|", "logical_xor": "^", "bitwise_and": "&",
                    "bitwise_or": "|", "add": "+", "subtract": "-", "multiply": "*", "divide": "/",
                    "true_divide": "/", "less": "<", "less_equal": "<=", "greater": ">", "greater_equal": ">=",
                    "equal": "==", "not_equal": "!="}[op], _boolify(op, x), _boolify(op, y))


def _boolify(op, x):
    if op.startswith("logical_"):
        if isinstance(x, ndarray):
            return x if x._dt.kind == "b" else x.astype("bool")
        return x
    return x


minimum = _ufunc2("minimum")
maximum = _ufunc2("maximum")
logical_and = _ufunc2("logical_and")
logical_or = _ufunc2("logical_or")
logical_xor = _ufunc2("logical_xor")
bitwise_and = _ufunc2("bitwise_and")
bitwise_or = _ufunc2("bitwise_or")
add = _ufunc2("add")
subtract = _ufunc2("subtract")
multiply = _ufunc2("multiply")
divide = true_divide = _ufunc2("true_divide")
less = _ufunc2("less")
less_equal = _ufunc2("less_equal")
greater = _ufunc2("greater")
greater_equal = _ufunc2("greater_equal")
equal = _ufunc2("equal")
not_equal = _ufunc2("not_equal")


def _reduction(kind):
    def f(x, axis=None, ddof=0, **k):
        from . import sympd
        if isinstance(x, (list, tuple)):
            x = array(x)
        if isinstance(x, sympd.Series):
            x = x.values_arr()
        if isinstance(x, _np.ndarray):
            x = asarray(x)
        if isinstance(x, MaskedConstant):
            return x
        if not isinstance(x, ndarray):
            x = array(x)
        if kind == "std":
            return x.std(axis=axis, ddof=ddof)
        return getattr(x, kind)(axis=axis)
    f.__name__ = kind
    return f


mean = _reduction("mean")
std = _reduction("std")
ptp = _reduction("ptp")
amin = _reduction("min")
amax = _reduction("max")
sum = _reduction("sum")
globals()["min"] = amin
globals()["max"] = amax


def nanmin(x, axis=None):
    return _nanreduce(x, "min")


def nanmax(x, axis=None):
    return _nanreduce(x, "max")


def _nanreduce(x, kind):
    x = asarray(x) if not isinstance(x, ndarray) else x
    m = MaskedArray(x._data_arr() if x._is_masked else x, isnan(x))
    r = m._unmasked_reduce(kind)
    if r is masked:
        return SFloat.const(float("nan"))
    return r


def any(x, axis=None):
    if not isinstance(x, ndarray):
        x = asarray(x)
    return x.any(axis)


def all(x, axis=None):
    if not isinstance(x, ndarray):
        x = asarray(x)
    return x.all(axis)


def median(x, axis=None):
    if isinstance(x, (list, tuple)):
        x = array(x)
    if axis is not None:
        raise Unsupported("median(axis)")
    if x._is_masked:
        raise Unsupported("median of masked array")
    xs = list(x.a.flat)
    n = len(xs)
    k = x._dt.kind
    if n == 0:
        if k == "m":
            return SDelta(0, TRUE)
        return SFloat.const(float("nan"))
    # sorting network of If-terms (odd-even transposition sort)
    if k == "f":
        vals = [v.v for v in xs]
        nanf = mk_or(*[v.nan for v in xs])
    elif k == "m":
        if _bi.any(getattr(v, "f", None) is not None for v in xs):
            raise Unsupported("median of sub-second time steps")
        vals = [v.s for v in xs]
        nanf = mk_or(*[v.nat for v in xs])
    elif k in "iu":
        vals = [v.v for v in xs]
        nanf = FALSE
    else:
        raise Unsupported(f"median of {x._dt}")
    vals = list(vals)
    for rnd in range(n):
        for i in range(rnd % 2, n - 1, 2):
            a, b = vals[i], vals[i + 1]
            c = a <= b
            vals[i], vals[i + 1] = mk_if(c, a, b), mk_if(c, b, a)
    if n % 2:
        mid = vals[n // 2]
        if k == "m":
            return _DeltaScalar(SDelta(mid, nanf), x._dt)
        if k == "f":
            return SFloat(nanf, mid)
        return SInt(mid).__sym_float__()
    lo, hi = vals[n // 2 - 1], vals[n // 2]
    if k == "m":
        # numpy: mean of the two middle timedeltas (integer division toward -inf on the ns count; whole seconds
        # make (lo+hi)*1e9/2 exact in ns, but the result may be a half second)
        tot = lo + hi
        u = _unit(x._dt)
        if u not in _UNIT_PER_S or u == "s":
            # seconds or coarser: the mean of the two middle values is taken on the integer count in that unit (floor)
            k = 1 if u == "s" else _S_PER_UNIT.get(u)
            if k is None:
                raise Unsupported(f"median of timedelta64[{u}]")
            return _DeltaScalar(SDelta((tot / (2 * k)) * k, nanf), x._dt)
        half = mk_not(mk_eq(tot - 2 * (tot / 2), z3.IntVal(0)))
        return _DeltaScalar(SDelta(tot / 2, nanf), x._dt, half=half)
    if k == "f":
        return SFloat(nanf, (lo + hi) / 2)
    return (SInt(lo).__sym_float__() + SInt(hi).__sym_float__()) / 2


class _DeltaScalar(SDelta):
    """numpy.timedelta64 scalar with a unit tag (supports .astype)."""
    __slots__ = ("dt", "half")

    def __init__(self, d, dt, half=FALSE):
        SDelta.__init__(self, d.s, d.nat, getattr(d, "f", None))
        self.dt = dt
        self.half = half     # value is s + 1/2 second (median of an even number of whole-second steps)

    def astype(self, t):
        ndt = dtype(t)
        if ndt.kind == "m":
            u = _unit(ndt)
            if u in _UNIT_PER_S and u != "s":
                return _DeltaScalar(_coarsen(self, ndt), ndt, half=self.half)
            # seconds or coarser: numpy floors
            return _DeltaScalar(_coarsen(self, ndt), ndt)
        if not is_f(self.half):
            u = _unit(self.dt)
            if u not in ("ns", "us", "ms"):
                raise Unsupported("half-second timedelta in a coarse unit")
            k = _UNIT_PER_S[u]
            cnt = self.s * k + mk_if(self.half, z3.IntVal(k // 2), z3.IntVal(0))
            if ndt.kind == "f":
                return SFloat(self.nat, z3.ToReal(cnt))
            if ndt.kind in "iu":
                return SInt(cnt)
        return cast_scalar(self, ndt, self.dt)


def insert(arr, obj, values, axis=None):
    arr = asarray(arr) if not isinstance(arr, ndarray) else arr
    values = asarray(values) if not isinstance(values, ndarray) else values
    if obj != 0 or arr.a.ndim != 1:
        raise Unsupported("np.insert other than at 0 on 1-d")
    out = _obj((arr.a.size + values.a.size,))
    k = values.a.size
    for i, v in enumerate(values.a.flat):
        out[i] = cast_scalar(v, arr._dt, values._dt)
    for i, v in enumerate(arr.a.flat):
        out[k + i] = v
    return ndarray(out, arr._dt)


def concatenate(arrs, axis=0):
    arrs = [a if isinstance(a, ndarray) else asarray(a) for a in arrs]
    rdt = _np.result_type(*[a._dt for a in arrs])
    out = _np.concatenate([a.a for a in arrs], axis=axis)
    r = ndarray(out, rdt)
    return r


def hstack(arrs):
    return concatenate([atleast_1d(a) for a in arrs])


def atleast_1d(a):
    a = a if isinstance(a, ndarray) else asarray(a)
    if a.a.ndim == 0:
        return a.reshape((1,))
    return a


def array_equal(a, b):
    a, b = asarray(a), asarray(b)
    if a.a.shape != b.a.shape:
        return False
    return bool((a == b).all())


def shape(a):
    return asarray(a).shape if not isinstance(a, ndarray) else a.shape


def size(a):
    return a.size if isinstance(a, ndarray) else asarray(a).size


def ndim(a):
    return a.ndim if isinstance(a, ndarray) else asarray(a).ndim


def isscalar(x):
    return isinstance(x, (Sym, int, float, bool, str, _np.generic))


def broadcast_to(a, shape):
    a = a if isinstance(a, ndarray) else asarray(a)
    return ndarray(_np.broadcast_to(a.a, shape).copy(), a._dt)


def arange(*a, **k):
    return asarray(_np.arange(*a, **k))


def unique(a):
    raise Unsupported("np.unique")


def sort(a):
    raise Unsupported("np.sort")


def clip(a, lo, hi):
    return minimum(maximum(a, lo), hi)


class vectorize:
    def __init__(self, pyfunc, otypes=None, **k):
        self.f = pyfunc

    def __call__(self, *args):
        parts = [_parts(x) for x in args]
        anymasked = [x for x in args if isinstance(x, ndarray) and x._is_masked]
        arrs = _np.broadcast_arrays(*[p[0] for p in parts])
        shape = arrs[0].shape
        out = _obj(shape)
        for p in _np.ndindex(shape):
            out[p] = self.f(*[a[p] for a in arrs])
        if out.size:
            rdt = _scalar_dtype(out.flat[0])
        else:
            # numpy cannot determine the output type of an empty vectorize call
            raise ValueError("cannot call `vectorize` on size 0 inputs unless `otypes` is set")
        r = ndarray(out, rdt)
        if anymasked:
            m = _obj(shape)
            masks = [_np.broadcast_to(x._maskarray().a, shape) for x in anymasked]
            for p in _np.ndindex(shape):
                m[p] = SBool(mk_or(*[mm[p].b for mm in masks]))
            return MaskedArray(r, ndarray(m, "bool"))
        return r


def filled(a, fill_value=None):
    if not (isinstance(a, ndarray) and a._is_masked):
        return a if isinstance(a, ndarray) else asarray(a)
    if a._mask is None:
        return a._data_arr()
    if fill_value is None:
        raise Unsupported("filled() with the default fill value")
    fv = cast_scalar(fill_value, a._dt)
    out = _obj(a.a.shape)
    for p in _np.ndindex(a.a.shape):
        out[p] = ite(a._mask.a[p].b, fv, a.a[p])
    return ndarray(out, a._dt)


def masked_invalid(a, copy=True):
    a = a if isinstance(a, ndarray) else array(a)
    d = a._data_arr() if a._is_masked else a
    if copy:
        d = d.copy()
    if d._dt.kind == "f":
        bad = _unary("isnan", d)
    elif d._dt.kind in "Mm":
        bad = _unary("isnat", d)
    elif d._dt.kind in "iub":
        bad = full(d.a.shape, False, "bool")
    else:
        raise TypeError("ufunc 'isfinite' not supported for the input types, and the inputs could not be safely "
                        "coerced to any supported types according to the casting rule ''safe''")
    if a._is_masked and a._mask is not None:
        if not copy:
            # numpy: the result is a view sharing the input's mask, and assigning the new mask writes through it
            merged = _binary("|", bad, a._mask)
            a._mask[...] = merged
            return MaskedArray(d, a._mask)
        bad = _binary("|", bad, a._mask)
    return MaskedArray(d, bad)


def masked_where(cond, a, copy=True):
    a = a if isinstance(a, ndarray) else array(a)
    d = a._data_arr() if a._is_masked else a
    if copy:
        d = d.copy()
    c = cond if isinstance(cond, ndarray) else asarray(cond)
    if c._is_masked:
        c = filled(c, True) if c._mask is not None else c._data_arr()
    if c._dt.kind != "b":
        c = c.astype("bool")
    if a._is_masked and a._mask is not None:
        c = _binary("|", c, a._mask)
    return MaskedArray(d, c)


def _ma_full(shape, v, dtype=float):
    return MaskedArray(full(shape, v, globals()["dtype"](dtype)), None)


def _ma_empty(shape, dtype=float):
    return MaskedArray(empty(shape, dtype), None)


def _ma_masked_all(shape, dtype=float):
    d = empty(shape, dtype)
    m = full(d.a.shape, True, "bool")
    return MaskedArray(d, m)


def _ma_true_divide(a, b):
    """numpy.ma.true_divide / numpy.ma.divide: the domained masked division, also for plain operands"""
    a = a if isinstance(a, ndarray) else asarray(a)
    b = b if isinstance(b, ndarray) or isinstance(b, Sym) or isinstance(b, (int, float)) else asarray(b)
    if not a._is_masked:
        a = MaskedArray(a, None)
    return a / b


def _ma_empty_like(x, dtype=None):
    # numpy.ma.empty_like of a masked array keeps (a copy of) its mask
    r = empty_like(x, dtype)
    if isinstance(r, ndarray) and r._is_masked:
        return r
    return MaskedArray(r, x._mask_copy() if isinstance(x, ndarray) and x._is_masked else None)


def _ma_array(data=None, mask=None, dtype=None, fill_value=None, copy=False, **kw):
    return MaskedArray(data, mask=mask, dtype=dtype, fill_value=fill_value, copy=copy, **kw)


def getmask(x):
    if isinstance(x, ndarray) and x._is_masked and x._mask is not None:
        return x._mask
    return nomask


def getmaskarray(x):
    if isinstance(x, ndarray) and x._is_masked:
        return x._maskarray()
    x = asarray(x)
    return full(x.a.shape, False, "bool")


def getdata(x):
    if isinstance(x, ndarray) and x._is_masked:
        return x._data_arr()
    return asarray(x)


def is_masked(x):
    if isinstance(x, ndarray) and x._is_masked and x._mask is not None:
        return x._mask.any()
    return False


class _NoMask:
    def __bool__(self):
        return False

    def __repr__(self):
        return "nomask"


nomask = _NoMask()


def _ma_diff(x, n=1, axis=-1):
    x = x if isinstance(x, ndarray) else _ma_array(x)
    return diff(x)


class _Namespace(types.SimpleNamespace):
    """sub-namespace of the model (np.ma, np.lib...): unknown names poison the path instead of looking like an AttributeError of
    the code under analysis"""

    def __getattr__(self, name):
        from .values import UnsupportedAttribute
        if name.startswith("__"):
            raise AttributeError(name)
        raise UnsupportedAttribute(f"numpy.{self.__dict__.get('_nsname', 'ma')}.{name}")


ma = _Namespace(
    MaskedArray=MaskedArray, masked_array=_ma_array, array=_ma_array, masked=masked, nomask=nomask,
    masked_invalid=masked_invalid, masked_where=masked_where,
    ones=lambda shape, dtype=float: _ma_full(shape, 1, dtype),
    zeros=lambda shape, dtype=float: _ma_full(shape, 0, dtype),
    empty=_ma_empty, masked_all=_ma_masked_all, empty_like=_ma_empty_like,
    true_divide=_ma_true_divide, divide=_ma_true_divide,
    filled=filled, getmask=getmask, getmaskarray=getmaskarray, getdata=getdata, is_masked=is_masked,
    diff=_ma_diff, abs=abs, minimum=minimum, maximum=maximum,
    min=lambda x, axis=None: _ma_array(x).min(axis) if not isinstance(x, ndarray) else x.min(axis),
    max=lambda x, axis=None: _ma_array(x).max(axis) if not isinstance(x, ndarray) else x.max(axis),
    std=std, mean=mean, ptp=ptp, median=median, isMaskedArray=lambda x: isinstance(x, MaskedArray),
    MaskError=MaskError, MaskedConstant=MaskedConstant,
    core=types.SimpleNamespace(MaskedArray=MaskedArray, MaskedConstant=MaskedConstant),
)


def _as_strided(x, shape=None, strides=None, subok=False, writeable=True):
    """Strided view over a 1-d buffer; cells past the end are uninitialised memory (havoc)."""
    base = x._data_arr() if x._is_masked else x
    if base.a.ndim != 1:
        raise Unsupported("as_strided on n-d base")
    item = base.strides[-1]
    shape = tuple(int(s) for s in shape)
    strides = tuple(int(s) for s in strides)
    if _bi.any(s < 0 for s in shape):
        raise ValueError("negative dimensions are not allowed")
    if _bi.any(s % item for s in strides):
        raise Unsupported("as_strided with non-element strides")
    n = base.a.shape[0]
    out = _obj(shape)
    pad = {}
    for p in _np.ndindex(shape):
        off = 0
        for i, st in zip(p, strides):
            off += i * (st // item)
        if 0 <= off < n:
            out[p] = base.a[off]
        else:
            if off not in pad:
                pad[off] = havoc(base._dt, "out-of-bounds as_strided read")
            out[p] = pad[off]
    r = ndarray(out, base._dt)
    r.owner = "strided"
    return r


lib = types.SimpleNamespace(stride_tricks=types.SimpleNamespace(as_strided=_as_strided))


class _Testing:
    pass


def _ma_where(condition, x=None, y=None):
    """numpy.ma.where with three arguments"""
    if x is None and y is None:
        c = condition if isinstance(condition, ndarray) else asarray(condition)
        return where(filled(c, False) if (c._is_masked and c._mask is not None) else c)
    c = condition if isinstance(condition, ndarray) else asarray(condition)
    cf = filled(c, False) if (c._is_masked and c._mask is not None) else (c._data_arr() if c._is_masked else c)
    cm = getmaskarray(c)

    def parts(v):
        if isinstance(v, MaskedConstant):
            return SFloat.const(0.0), SBool(True)
        if isinstance(v, ndarray):
            return (v._data_arr() if v._is_masked else v), getmaskarray(v)
        return v, SBool(False)
    xd, xm = parts(x)
    yd, ym = parts(y)
    data = where(cf, xd, yd)
    mask = where(cf, xm, ym)
    mask = where(cm, SBool(True), mask)
    return MaskedArray(data, mask)


def searchsorted(a, v, side="left", sorter=None):
    """numpy's binary search, executed on symbolic comparisons (faithful also when `a` is not sorted)"""
    if sorter is not None:
        raise Unsupported("searchsorted(sorter)")
    a = a if isinstance(a, ndarray) else asarray(a)
    if a._is_masked:
        a = a._data_arr()
    if isinstance(v, (ndarray, list, tuple)):
        vs = v if isinstance(v, ndarray) else asarray(v)
        out = _obj(vs.a.shape)
        for p in _np.ndindex(vs.a.shape):
            out[p] = SInt(_search1(a, vs.a[p], side))
        return ndarray(out, "int64")
    return _search1(a, v, side)


def _search1(a, v, side):
    v = cast_scalar(v, a._dt)
    lo, hi = 0, a.a.shape[0]
    while lo < hi:
        mid = lo + ((hi - lo) >> 1)
        x = a.a[mid]
        go_right = (x < v) if side == "left" else (x <= v)
        if bool(go_right):
            lo = mid + 1
        else:
            hi = mid
    return lo


def cumsum(a, axis=None):
    a = a if isinstance(a, ndarray) else asarray(a)
    if a.a.ndim != 1:
        raise Unsupported("cumsum n-d")
    out = _obj(a.a.shape)
    acc = None
    dt = _np.dtype("int64") if a._dt.kind in "bui" else a._dt
    for i, x in enumerate(a.a):
        x = cast_scalar(x, dt)
        acc = x if acc is None else acc + x
        out[i] = acc
    return ndarray(out, dt)


def flatnonzero(a):
    return where(asarray(a).flatten() if not isinstance(a, ndarray) else a.flatten())[0]


def datetime_data(dt):
    return _np.datetime_data(dtype(dt))


def extract(condition, arr):
    """np.extract(cond, arr) == np.compress(ravel(cond), ravel(arr))"""
    a = arr if isinstance(arr, ndarray) else asarray(arr)
    c = condition if isinstance(condition, ndarray) else asarray(condition)
    flat = a.ravel() if not a._is_masked else a._data_arr().ravel()
    cf = (c._data_arr() if c._is_masked else c).ravel()
    if cf._dt.kind != "b":
        cf = cf != 0
    return flat[cf]


def ravel(a, order="C"):
    a = a if isinstance(a, ndarray) else asarray(a)
    return a.ravel()


def _index_list(x, what):
    """concrete python ints of an index-like value (LazyIdx over decided conditions, int array, list); symbolic positions are
    concretised (forks per feasible value)"""
    if isinstance(x, LazyIdx):
        out = []
        for i, c in enumerate(x.cond.a.flat):
            if bool(c):
                out.append(i + x.shift)
        return out
    x = x if isinstance(x, ndarray) else asarray(x)
    if x._dt.kind not in "iub":
        raise Unsupported(f"{what} on non-integer values")
    return [int(v) for v in x.a.flat]


def union1d(a, b):
    return asarray(_np.union1d(_np.array(_index_list(a, "np.union1d"), dtype="int64"),
                               _np.array(_index_list(b, "np.union1d"), dtype="int64")))


def intersect1d(a, b):
    return asarray(_np.intersect1d(_np.array(_index_list(a, "np.intersect1d"), dtype="int64"),
                                   _np.array(_index_list(b, "np.intersect1d"), dtype="int64")))


def setdiff1d(a, b):
    return asarray(_np.setdiff1d(_np.array(_index_list(a, "np.setdiff1d"), dtype="int64"),
                                 _np.array(_index_list(b, "np.setdiff1d"), dtype="int64")))


def put(a, ind, v, mode="raise"):
    if not isinstance(a, ndarray):
        raise TypeError("argument 1 must be numpy.ndarray")
    if mode != "raise":
        raise Unsupported("np.put mode")
    idx = _index_list(ind, "np.put") if not isinstance(ind, int) else [ind]
    vals = v if isinstance(v, ndarray) else asarray(v)
    vals = list((vals._data_arr() if vals._is_masked else vals).a.flat)
    n = a.a.size
    for i in idx:
        if i < -n or i >= n:
            raise IndexError(f"index {i} is out of bounds for axis 0 with size {n}")
    if not vals:
        if idx:
            raise Unsupported("np.put with no values")
        return None
    flat = a.reshape(-1) if a.a.ndim != 1 else a
    for k, i in enumerate(idx):
        flat[i] = vals[k % len(vals)]
    return None


def append(arr, values, axis=None):
    return concatenate([atleast_1d(arr).flatten(), atleast_1d(values).flatten()])


def isin(element, test_elements):
    e = element if isinstance(element, ndarray) else asarray(element)
    t = test_elements if isinstance(test_elements, ndarray) else asarray(test_elements)
    out = _obj(e.a.shape)
    for p in _np.ndindex(e.a.shape):
        out[p] = SBool(mk_or(*[as_sbool_term(e.a[p] == y) for y in t.a.flat]))
    return ndarray(out, "bool")


def as_sbool_term(b):
    if isinstance(b, SBool):
        return b.b
    return TRUE if b else FALSE


def count_nonzero(a, axis=None):
    a = a if isinstance(a, ndarray) else asarray(a)
    if axis is not None:
        raise Unsupported("count_nonzero(axis)")
    if a._is_masked:
        a = a._data_arr()
    acc = SInt(0)
    for x in a.a.flat:
        acc = acc + cast_scalar(x, _np.dtype("bool"))._as_int()
    return acc


def _ma_allequal(a, b, fill_value=True):
    """numpy.ma.allequal: masked entries (in either array) count as equal when fill_value is True"""
    a = a if isinstance(a, ndarray) else asarray(a)
    b = b if isinstance(b, ndarray) else asarray(b)
    if a.a.shape != b.a.shape:
        try:
            _np.broadcast_shapes(a.a.shape, b.a.shape)
        except ValueError:
            raise ValueError("operands could not be broadcast together")
    m = _binary("|", getmaskarray(a), getmaskarray(b))
    eq = _binary("==", getdata(a), getdata(b))
    terms = []
    mm, ee = _np.broadcast_arrays(m.a, eq.a)
    for p in _np.ndindex(mm.shape):
        terms.append(mk_if(mm[p].b, TRUE if fill_value else FALSE, ee[p].b))
    return SBool(mk_and(*terms))


ma.allequal = _ma_allequal
ma.copy = lambda a: (a.copy() if isinstance(a, ndarray) else _ma_array(a))
ma.ravel = lambda a: a.flatten()
ma.size = lambda a: (a.size if isinstance(a, ndarray) else asarray(a).size)
ma.shape = lambda a: (a.shape if isinstance(a, ndarray) else asarray(a).shape)
ma.allclose = lambda a, b, masked_equal=True, rtol=1e-5, atol=1e-8: SBool(mk_and(*[
    mk_if(m.b, TRUE if masked_equal else FALSE, c.b) for m, c in zip(_binary("|", getmaskarray(a if isinstance(a, ndarray) else asarray(a)),
                                                                          getmaskarray(b if isinstance(b, ndarray) else asarray(b))).a.flat,
                                                                  isclose(getdata(a), getdata(b), rtol, atol).a.flat)]))
ma.where = _ma_where
ma.count = lambda a, axis=None: (a.count(axis) if (isinstance(a, ndarray) and a._is_masked) else SInt(asarray(a).size))
ma.asarray = lambda a, dtype=None: _ma_array(a, dtype=dtype)
ma.asanyarray = lambda a, dtype=None: _ma_array(a, dtype=dtype)
ma.masked_equal = lambda a, v: masked_where(_binary("==", getdata(a), v), a)
ma.count_masked = lambda a: SInt(asarray(a).size) - ma.count(a)
ma.compressed = lambda a: (a._data_arr()[~a._maskarray()] if (isinstance(a, ndarray) and a._is_masked) else asarray(a).flatten())


# ---------------------------------------------------------------------------------------------
# further NumPy surface (plausible refactorings of the repository's code)
# ---------------------------------------------------------------------------------------------

def _cmp_mask(op):
    def f(a, value, copy=True):
        a = a if isinstance(a, ndarray) else asarray(a)
        return masked_where(_binary(op, getdata(a), value), a, copy=copy)
    return f


ma.masked_less = _cmp_mask("<")
ma.masked_less_equal = _cmp_mask("<=")
ma.masked_greater = _cmp_mask(">")
ma.masked_greater_equal = _cmp_mask(">=")
ma.masked_not_equal = _cmp_mask("!=")


def _masked_outside(a, v1, v2, copy=True):
    a = a if isinstance(a, ndarray) else asarray(a)
    lo, hi = (v1, v2) if not bool(_scalar_lt(v2, v1)) else (v2, v1)
    d = getdata(a)
    return masked_where(_binary("|", _binary("<", d, lo), _binary(">", d, hi)), a, copy=copy)


def _masked_inside(a, v1, v2, copy=True):
    a = a if isinstance(a, ndarray) else asarray(a)
    lo, hi = (v1, v2) if not bool(_scalar_lt(v2, v1)) else (v2, v1)
    d = getdata(a)
    return masked_where(_binary("&", _binary(">=", d, lo), _binary("<=", d, hi)), a, copy=copy)


def _scalar_lt(a, b):
    r = as_sfloat_strict(a) < as_sfloat_strict(b)
    return r


ma.masked_outside = _masked_outside
ma.masked_inside = _masked_inside
ma.mask_or = lambda m1, m2, copy=False, shrink=True: (m2 if m1 is nomask or m1 is None else (m1 if m2 is nomask or m2 is None else _binary("|", m1, m2)))
ma.make_mask = lambda m, copy=False, shrink=True, dtype=None: (asarray(m).astype("bool"))
ma.make_mask_none = lambda shape, dtype=None: full(shape, False, "bool")
ma.fix_invalid = lambda a, mask=None, copy=True, fill_value=None: masked_invalid(a, copy=copy)
ma.sum = lambda a, axis=None: (a.sum(axis) if isinstance(a, ndarray) else asarray(a).sum(axis))
ma.count_nonzero = count_nonzero if "count_nonzero" in globals() else None
ma.any = lambda a, axis=None: (a.any(axis) if isinstance(a, ndarray) else asarray(a).any(axis))
ma.all = lambda a, axis=None: (a.all(axis) if isinstance(a, ndarray) else asarray(a).all(axis))
ma.ones_like = ones_like
ma.zeros_like = zeros_like
ma.concatenate = lambda arrs, axis=0: _ma_concat(arrs)
ma.nomask = nomask


def _ma_concat(arrs):
    arrs = [a if isinstance(a, ndarray) else asarray(a) for a in arrs]
    d = concatenate([getdata(a) for a in arrs])
    if not _bi.any(a._is_masked and a._mask is not None for a in arrs):
        return MaskedArray(d, None)
    m = concatenate([getmaskarray(a) for a in arrs])
    return MaskedArray(d, m)


def _nanfilter(x):
    x = x if isinstance(x, ndarray) else asarray(x)
    return MaskedArray(x._data_arr() if x._is_masked else x, isnan(x) if x._dt.kind == "f" else None)


def nansum(x, axis=None):
    r = _nanfilter(x)._unmasked_reduce("sum", axis)
    return SFloat.const(0.0) if r is masked else r


def nanmean(x, axis=None):
    r = _nanfilter(x)._unmasked_reduce("mean", axis)
    return SFloat.const(float("nan")) if r is masked else r


def nanstd(x, axis=None, ddof=0):
    r = _nanfilter(x)._unmasked_reduce("std", axis, ddof)
    return SFloat.const(float("nan")) if r is masked else r


def roll(a, shift, axis=None):
    a = a if isinstance(a, ndarray) else asarray(a)
    r = _np.roll(a.a, int(shift), axis)
    if a._is_masked:
        return MaskedArray(ndarray(r, a._dt), None if a._mask is None else ndarray(_np.roll(a._mask.a, int(shift), axis), "bool"))
    return ndarray(r, a._dt)


def ediff1d(a, to_end=None, to_begin=None):
    if to_end is not None or to_begin is not None:
        raise Unsupported("ediff1d(to_end/to_begin)")
    return diff(asarray(a).flatten() if not isinstance(a, ndarray) else a.flatten())


def square(x):
    return multiply(x, x)


def _round_like(kind):
    def f(x, *a, **k):
        x = x if isinstance(x, (ndarray, Sym)) else asarray(x)
        def one(v):
            v = as_sfloat_strict(v)
            fl = z3.ToReal(z3.ToInt(v.v))
            if kind == "floor":
                r = fl
            elif kind == "ceil":
                r = mk_if(mk_eq(fl, v.v), fl, fl + 1)
            else:  # trunc
                r = mk_if(v.v >= 0, fl, mk_if(mk_eq(fl, v.v), fl, fl + 1))
            return SFloat(v.nan, r)
        if isinstance(x, ndarray):
            out = _obj(x.a.shape)
            for p in _np.ndindex(x.a.shape):
                out[p] = one(x.a[p])
            r = ndarray(out, "float64")
            return MaskedArray(r, x._mask_copy()) if x._is_masked else r
        return one(x)
    return f


floor = _round_like("floor")
ceil = _round_like("ceil")
trunc = _round_like("trunc")


def round(x, decimals=0, out=None):
    """numpy.round / around / rint over the reals: round-half-to-even of x * 10**decimals (numpy's own scaling is done in binary64,
    which can differ exactly at a scaled half; path witnesses run on the real numpy)"""
    if out is not None:
        raise Unsupported("np.round(out=)")
    d = int(decimals)
    scale = Fraction(10) ** d
    x = x if isinstance(x, (ndarray, Sym)) else asarray(x)

    def one(v):
        if isinstance(v, SInt):
            if d >= 0:
                return v
            raise Unsupported("np.round of integers to negative decimals")
        v = as_sfloat_strict(v)
        y = v.v * rv(scale)
        fl = z3.ToInt(y)
        frac = y - z3.ToReal(fl)
        half = rv(Fraction(1, 2))
        up = mk_or(frac > half, mk_and(mk_eq(frac, half), mk_not(mk_eq(fl % 2, z3.IntVal(0)))))
        return SFloat(v.nan, z3.ToReal(fl + mk_if(up, z3.IntVal(1), z3.IntVal(0))) / rv(scale))
    if isinstance(x, ndarray):
        if x._dt.kind not in "fiu":
            raise Unsupported(f"np.round of {x._dt}")
        out_ = _obj(x.a.shape)
        for p in _np.ndindex(x.a.shape):
            out_[p] = one(x.a[p])
        r = ndarray(out_, x._dt if x._dt.kind == "f" else x._dt)
        return MaskedArray(r, x._mask_copy()) if x._is_masked else r
    return one(x)


around = round_ = round


def rint(x):
    return round(x, 0)


def sort(a, axis=-1):
    a = a if isinstance(a, ndarray) else asarray(a)
    if a.a.ndim != 1 or a._is_masked:
        raise Unsupported("sort of n-d / masked arrays")
    xs = list(a.a)
    n = len(xs)
    for rnd in range(n):
        for i in range(rnd % 2, n - 1, 2):
            x, y = xs[i], xs[i + 1]
            c = (x <= y)
            c = c.b if isinstance(c, SBool) else (TRUE if c else FALSE)
            if a._dt.kind == "f":
                # NaNs sort to the end
                c = mk_or(mk_and(mk_not(x.nan), y.nan), mk_and(mk_not(x.nan), mk_not(y.nan), x.v <= y.v), mk_and(x.nan, y.nan))
            xs[i], xs[i + 1] = ite(c, x, y), ite(c, y, x)
    out = _obj((n,))
    for i, x in enumerate(xs):
        out[i] = x
    return ndarray(out, a._dt)


def fmax(x, y):
    return _nan_ignoring(x, y, "max")


def fmin(x, y):
    return _nan_ignoring(x, y, "min")


def _nan_ignoring(x, y, kind):
    xa, xd, xarr = _parts(x)
    ya, yd, yarr = _parts(y)
    ba, bb = _np.broadcast_arrays(xa, ya)
    out = _obj(ba.shape)
    for p in _np.ndindex(ba.shape):
        a, b = as_sfloat_strict(ba[p]), as_sfloat_strict(bb[p])
        better = (a.v >= b.v) if kind == "max" else (a.v <= b.v)
        v = mk_if(a.nan, b.v, mk_if(b.nan, a.v, mk_if(better, a.v, b.v)))
        out[p] = SFloat(mk_and(a.nan, b.nan), v)
    if not xarr and not yarr:
        return out[()]
    return ndarray(out, "float64")


def nan_to_num(x, nan=0.0, **k):
    x = x if isinstance(x, ndarray) else asarray(x)
    out = _obj(x.a.shape)
    fv = SFloat.const(float(nan))
    for p in _np.ndindex(x.a.shape):
        v = as_sfloat_strict(x.a[p])
        out[p] = SFloat(FALSE, mk_if(v.nan, fv.v, v.v))
    return ndarray(out, "float64")


def isclose(a, b, rtol=1e-05, atol=1e-08, equal_nan=False):
    """|a - b| <= atol + rtol * |b|  (exact over the reals; NaN is close to nothing unless equal_nan)"""
    xa, xd, xarr = _parts(a)
    ya, yd, yarr = _parts(b)
    ba, bb = _np.broadcast_arrays(xa, ya)
    out = _obj(ba.shape)
    rt, at = rv(Fraction(float(rtol))), rv(Fraction(float(atol)))
    for p in _np.ndindex(ba.shape):
        x, y = as_sfloat_strict(ba[p]), as_sfloat_strict(bb[p])
        d = x.v - y.v
        ad = mk_if(d >= 0, d, -d)
        ay = mk_if(y.v >= 0, y.v, -y.v)
        close = mk_and(mk_not(x.nan), mk_not(y.nan), ad <= at + rt * ay)
        if equal_nan:
            close = mk_or(close, mk_and(x.nan, y.nan))
        out[p] = SBool(close)
    if not xarr and not yarr:
        return out[()]
    r = ndarray(out, "bool")
    masked_in = [v for v in (a, b) if isinstance(v, ndarray) and v._is_masked]
    if masked_in:
        m = masked_in[0]._maskarray()
        for o in masked_in[1:]:
            m = _binary("|", m, o._maskarray())
        return MaskedArray(r, m)
    return r


def allclose(a, b, rtol=1e-05, atol=1e-08, equal_nan=False):
    r = isclose(a, b, rtol, atol, equal_nan)
    return r.all() if isinstance(r, ndarray) else r


def take(a, indices, axis=None):
    a = a if isinstance(a, ndarray) else asarray(a)
    return a[indices]


def logical_not_(x):
    return logical_not(x)


def ones_like_bool(x):
    return full_like(x, True, dtype=bool)


def _sliding_window_view(x, window_shape, axis=None, **kw):
    x = x if isinstance(x, ndarray) else asarray(x)
    base = x._data_arr() if x._is_masked else x
    if base.a.ndim != 1:
        raise Unsupported("sliding_window_view on n-d")
    w = int(window_shape[0] if isinstance(window_shape, (tuple, list)) else window_shape)
    n = base.a.shape[0]
    if w < 0:
        raise ValueError("`window_shape` cannot contain negative values")
    if w > n:
        raise ValueError("window shape cannot be larger than input array shape")
    out = _obj((n - w + 1, w))
    for i in range(n - w + 1):
        for j in range(w):
            out[i, j] = base.a[i + j]
    r = ndarray(out, base._dt)
    if x._is_masked and kw.get("subok"):
        m = _obj((n - w + 1, w))
        mm = x._maskarray().a
        for i in range(n - w + 1):
            for j in range(w):
                m[i, j] = mm[i + j]
        return MaskedArray(r, ndarray(m, "bool"))
    return r


lib.stride_tricks.sliding_window_view = _sliding_window_view


def digitize(x, bins, right=False):
    """index of the bin each value falls in; bins must be monotonic (increasing or decreasing), as numpy requires"""
    xa = x if isinstance(x, ndarray) else asarray(x)
    b = bins if isinstance(bins, ndarray) else asarray(bins)
    bl = [as_sfloat_strict(v) for v in b.a.flat]
    nb = len(bl)
    inc = bool(SBool(mk_and(*[(p.v <= q.v) for p, q in zip(bl, bl[1:])]))) if nb > 1 else True
    if not inc:
        dec = bool(SBool(mk_and(*[(p.v >= q.v) for p, q in zip(bl, bl[1:])])))
        if not dec:
            raise ValueError("bins must be monotonically increasing or decreasing")
    data = xa._data_arr() if xa._is_masked else xa
    out = _obj(data.a.shape)
    for p in _np.ndindex(data.a.shape):
        v = as_sfloat_strict(data.a[p])
        cnt = z3.IntVal(0)
        for q in bl:
            if inc:
                c = (q.v < v.v) if right else (q.v <= v.v)
            else:
                c = (q.v >= v.v) if right else (q.v > v.v)
            cnt = cnt + mk_if(mk_or(v.nan, c) if inc else mk_and(mk_not(v.nan), c), z3.IntVal(1), z3.IntVal(0))
        out[p] = SInt(cnt)
    r = ndarray(out, "int64")
    return MaskedArray(r, xa._mask_copy()) if xa._is_masked else r


def select(condlist, choicelist, default=0):
    conds = [c if isinstance(c, ndarray) else asarray(c) for c in condlist]
    shape = conds[0].a.shape
    out = full(shape, default, _np.result_type(*[_scalar_dtype(c) if not isinstance(c, ndarray) else c._dt for c in choicelist]))
    for c, ch in reversed(list(zip(conds, choicelist))):
        out = where(c, ch, out)
    return out


def _accumulate(kind):
    def f(a, axis=0):
        a = a if isinstance(a, ndarray) else asarray(a)
        if a.a.ndim != 1:
            raise Unsupported("accumulate n-d")
        out = _obj(a.a.shape)
        acc = None
        for i, x in enumerate(a.a):
            if acc is None:
                acc = x
            elif a._dt.kind == "f":
                acc = _fmax(acc, x) if kind == "max" else _fmin(acc, x)
            else:
                c = (x.v > acc.v) if kind == "max" else (x.v < acc.v)
                acc = SInt(mk_if(c, x.v, acc.v))
            out[i] = acc
        return ndarray(out, a._dt)
    return f


maximum.accumulate = _accumulate("max")
minimum.accumulate = _accumulate("min")
maximum.reduce = lambda a, axis=0: amax(a) if axis in (0, None) else amax(a, axis)
minimum.reduce = lambda a, axis=0: amin(a) if axis in (0, None) else amin(a, axis)
logical_or.reduce = lambda arrs, axis=0: _fold(arrs, "|")
logical_and.reduce = lambda arrs, axis=0: _fold(arrs, "&")


def _fold(arrs, op):
    arrs = list(arrs)
    acc = arrs[0]
    for a in arrs[1:]:
        acc = _binary(op, acc, a)
    return acc


def argmax(a, axis=None):
    return _argext(a, "max")


def argmin(a, axis=None):
    return _argext(a, "min")


def _argext(a, kind):
    a = a if isinstance(a, ndarray) else asarray(a)
    if a.a.ndim != 1 or a.a.size == 0:
        raise ValueError("attempt to get argmax of an empty sequence") if a.a.size == 0 else Unsupported("argmax n-d")
    best = 0
    for i in range(1, a.a.shape[0]):
        x, b = as_sfloat_strict(a.a[i]), as_sfloat_strict(a.a[best])
        better = mk_and(mk_not(b.nan), mk_or(x.nan, (x.v > b.v) if kind == "max" else (x.v < b.v)))
        if bool(SBool(better)):
            best = i
    return best


def gradient(f, *varargs, axis=None, edge_order=1):
    """1-d np.gradient with unit spacing: central differences inside, one-sided at the ends"""
    if varargs or edge_order != 1:
        raise Unsupported("np.gradient with spacing arguments / edge_order=2")
    f = f if isinstance(f, ndarray) else asarray(f)
    d = f._data_arr() if f._is_masked else f
    if d.a.ndim != 1:
        raise Unsupported("np.gradient n-d")
    n = d.a.shape[0]
    if n < 2:
        raise ValueError("Shape of array too small to calculate a numerical gradient, at least (edge_order + 1) elements are required.")
    xs = [as_sfloat_strict(v) for v in d.a]
    out = _obj((n,))
    out[0] = xs[1] - xs[0]
    out[n - 1] = xs[n - 1] - xs[n - 2]
    for i in range(1, n - 1):
        out[i] = (xs[i + 1] - xs[i - 1]) / 2
    r = ndarray(out, "float64")
    return MaskedArray(r, f._mask_copy()) if f._is_masked else r


def repeat(a, repeats, axis=None):
    a = a if isinstance(a, ndarray) else asarray(a)
    return ndarray(_np.repeat(a.a, int(repeats), axis), a._dt)


def tile(a, reps):
    a = a if isinstance(a, ndarray) else asarray(a)
    return ndarray(_np.tile(a.a, reps), a._dt)


def in1d(a, b):
    return isin(a, b)


def logical_not_all(x):
    return (~x).all()


def __getattr__(name):
    from .values import UnsupportedAttribute
    if name.startswith("__"):
        raise AttributeError(name)
    raise UnsupportedAttribute(f"numpy.{name}")


# -- calls with arguments the model's signature lacks are "unsupported", not a TypeError of the code under analysis -----------------
def _guard_signatures():
    import functools
    import inspect

    def guard(name, f):
        try:
            sig = inspect.signature(f)
        except (TypeError, ValueError):
            return f

        @functools.wraps(f)
        def g(*a, **k):
            try:
                sig.bind(*a, **k)
            except TypeError as e:
                # arguments every numpy creation/conversion function takes and that change nothing for a plain in-memory array
                k2 = {kk: v for kk, v in k.items() if not (kk in ("subok", "order", "like") and v in (True, False, None, "C", "K", "A"))}
                if len(k2) != len(k):
                    try:
                        sig.bind(*a, **k2)
                        return f(*a, **k2)
                    except TypeError:
                        pass
                raise Unsupported(f"numpy.{name} called with arguments outside the model ({e})")
            return f(*a, **k)
        for attr in ("reduce", "accumulate", "at", "outer"):
            if hasattr(f, attr):
                setattr(g, attr, getattr(f, attr))
        return g

    G = globals()
    for name, f in list(G.items()):
        if name.startswith("_") or not inspect.isfunction(f) or f.__module__ != __name__ or not hasattr(_np, name):
            continue
        G[name] = guard(name, f)
    for name, f in list(vars(ma).items()):
        if name.startswith("_") or not inspect.isfunction(f) or not hasattr(_np.ma, name):
            continue
        setattr(ma, name, guard("ma." + name, f))


_guard_signatures()
