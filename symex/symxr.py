"""xarray model (DESIGN §3.3): a 1-D Dataset whose variables share one dimension, with an optional dimension
coordinate (sorted times) used for label slicing."""
from __future__ import annotations

import types as _t

import numpy as _np

from . import explorer as _ex
from . import symnp as snp
from .values import SBool, SInt, STime, Sym, Unsupported, as_stime


class _Var:
    """Dataset.variables[name]"""

    def __init__(self, arr, dims):
        self._arr, self.dims = arr, dims

    def to_numpy(self):
        return self._arr.copy()

    @property
    def values(self):
        return self._arr.copy()

    @property
    def dtype(self):
        return self._arr._dt

    @property
    def shape(self):
        return self._arr.shape

    @property
    def size(self):
        return self._arr.size

    @property
    def ndim(self):
        return self._arr.ndim


class _Coords(dict):
    pass


class DataArray:
    def __init__(self, ds, name, arr, positions=None):
        self._ds, self.name, self._arr = ds, name, arr
        self.dims = ds._dims[name]
        self._positions = positions      # row positions relative to the dataset (None = all)

    @property
    def coords(self):
        out = _Coords()
        for cname in self._ds._coords:
            if self._ds._dims[cname] == self.dims:
                arr = self._ds._arrs[cname]
                if self._positions is not None:
                    arr = arr[self._positions]
                out[cname] = DataArray(self._ds, cname, arr, self._positions)
        return out

    @property
    def size(self):
        return self._arr.size

    @property
    def ndim(self):
        return self._arr.ndim

    @property
    def shape(self):
        return self._arr.shape

    @property
    def dtype(self):
        return self._arr._dt

    @property
    def values(self):
        return self._arr.copy()

    def to_numpy(self):
        return self._arr.copy()

    def sel(self, **indexers):
        if not indexers:
            return DataArray(self._ds, self.name, self._arr, self._positions)
        sl = self._ds._label_slices(self, indexers)
        (dim, s), = sl.items()
        if self._positions is not None:
            raise Unsupported("nested sel")
        return DataArray(self._ds, self.name, self._arr[s] if isinstance(s, slice) else self._arr[s], s)

    def __getitem__(self, k):
        return self._arr[k]


class Dataset:
    def __init__(self, data_vars=None, coords=None, attrs=None):
        self._arrs, self._dims, self._coords = {}, {}, []
        self.attrs = dict(attrs or {})
        for name, (dims, arr) in (coords or {}).items():
            self._add(name, dims, arr)
            self._coords.append(name)
        for name, (dims, arr) in (data_vars or {}).items():
            self._add(name, dims, arr)

    def _add(self, name, dims, arr):
        if isinstance(dims, str):
            dims = (dims,)
        if not isinstance(arr, snp.ndarray):
            arr = snp.asarray(arr)
        if arr.a.ndim != len(dims):
            raise ValueError("dimensions do not match the array")
        self._arrs[name] = arr
        self._dims[name] = tuple(dims)

    @property
    def variables(self):
        return {k: _Var(v, self._dims[k]) for k, v in self._arrs.items()}

    @property
    def data_vars(self):
        return {k: self[k] for k in self._arrs if k not in self._coords}

    @property
    def dims(self):
        out = {}
        for k, d in self._dims.items():
            for dn, n in zip(d, self._arrs[k].shape):
                out[dn] = n
        return out

    def __contains__(self, k):
        return k in self._arrs

    def __getitem__(self, name):
        if name not in self._arrs:
            raise KeyError(name)
        return DataArray(self, name, self._arrs[name])

    def close(self):
        pass

    def filter_by_attrs(self, **kw):
        raise Unsupported("Dataset.filter_by_attrs")

    def _label_slices(self, da, indexers):
        """{dim: slice(i, j)} for a label slice on a sorted dimension coordinate (pandas slice_indexer: both ends
        inclusive): i = #(t < start), j = #(t <= stop)."""
        out = {}
        for dim, lab in indexers.items():
            if dim not in da.dims:
                raise KeyError(f"{dim!r} is not a valid dimension or coordinate")
            if dim not in self._coords or self._dims[dim] != (dim,):
                raise KeyError(f"no index found for coordinate {dim!r}")
            idx = self._arrs[dim]
            if isinstance(lab, snp.ndarray):
                # an array of labels: each must be found in the (unique) index; positions in the given order
                pos = []
                for x in lab.a.flat:
                    found = None
                    for k, t in enumerate(idx.a):
                        if t is x:
                            found = k
                            break
                    if found is None:
                        for k, t in enumerate(idx.a):
                            if bool(t == x):
                                found = k
                                break
                    if found is None:
                        raise KeyError(f"not all values found in index {dim!r}")
                    pos.append(found)
                ex = _ex.current()
                ts = list(idx.a)
                for i in range(len(ts)):
                    for j in range(i + 1, len(ts)):
                        ex.side_condition((ts[i] != ts[j]).b, "label-array selection on an index with duplicate labels")
                out[dim] = _np.array(pos, dtype=int)
                continue
            if not isinstance(lab, slice) or lab.step is not None:
                raise Unsupported("label indexer other than a plain slice or a label array")
            ex = _ex.current()
            ts = list(idx.a)
            for a, b in zip(ts, ts[1:]):
                ex.side_condition((a <= b).b, "label slice on a non-monotonic dimension coordinate")
            n = len(ts)
            if lab.start is None:
                i = 0
            else:
                st = as_stime(lab.start)
                i = 0
                while i < n and bool(ts[i] < st):
                    i += 1
            if lab.stop is None:
                j = n
            else:
                sp = as_stime(lab.stop)
                j = 0
                while j < n and bool(ts[j] <= sp):
                    j += 1
            out[dim] = slice(i, j, None)
        return out


def map_index_queries(da, indexers, **kw):
    sl = da._ds._label_slices(da, indexers) if indexers else {}
    return _t.SimpleNamespace(dim_indexers=sl)


def open_dataset(*a, **k):
    raise Unsupported("xarray.open_dataset")


# -- gridded (time, [depth,] lat, lon) datasets, as read by the config creator ---------------------------------------------------------
LOADABLE = {}      # path -> GridDataset, filled by the harness before the code under analysis calls xarray.load_dataset(path)


def load_dataset(path, *a, **k):
    if a or k:
        raise Unsupported("xarray.load_dataset with options")
    try:
        return LOADABLE[str(path)]
    except KeyError:
        raise FileNotFoundError(2, "No such file or directory", str(path))


class _DtAccessor:
    def __init__(self, ga):
        self._ga = ga

    def __getattr__(self, name):
        if name not in ("dayofyear", "year", "month", "day"):
            raise Unsupported(f"DataArray.dt.{name}")
        a = self._ga._arr
        out = snp._obj(a.a.shape)
        for p in _np.ndindex(a.a.shape):
            out[p] = getattr(a.a[p], name)
        return GridArray(snp.ndarray(out, "int64"), self._ga.dims, self._ga._coords)


class GridArray:
    """model of an n-d xarray.DataArray: data (symbolic ndarray) + dimension names + 1-d coordinate arrays per dimension.
    Only what the config creator touches: comparisons, logical ufuncs, orthogonal (outer) indexing with slices / integers /
    1-d boolean arrays, `.data`, `.values`, `.time.dt.<attr>`, `in`."""

    def __init__(self, arr, dims, coords):
        self._arr, self.dims, self._coords = arr, tuple(dims), dict(coords)

    # -- numpy interoperability: symnp functions see the data ----------------------------------------------------------
    def __sym_array__(self):
        return self._arr

    @property
    def data(self):
        return self._arr

    @property
    def values(self):
        return self._arr

    def to_numpy(self):
        return self._arr

    @property
    def shape(self):
        return self._arr.shape

    @property
    def dtype(self):
        return self._arr._dt

    @property
    def ndim(self):
        return self._arr.ndim

    @property
    def size(self):
        return self._arr.size

    def _wrap(self, arr):
        return GridArray(arr, self.dims, self._coords) if isinstance(arr, snp.ndarray) and arr.a.shape == self._arr.a.shape else arr

    @staticmethod
    def _raw(o):
        return o._arr if isinstance(o, GridArray) else o

    def __ge__(self, o):
        return self._wrap(self._arr >= self._raw(o))

    def __le__(self, o):
        return self._wrap(self._arr <= self._raw(o))

    def __gt__(self, o):
        return self._wrap(self._arr > self._raw(o))

    def __lt__(self, o):
        return self._wrap(self._arr < self._raw(o))

    def __eq__(self, o):
        return self._wrap(self._arr == self._raw(o))

    def __ne__(self, o):
        return self._wrap(self._arr != self._raw(o))

    __hash__ = None

    def __and__(self, o):
        return self._wrap(self._arr & self._raw(o))

    def __or__(self, o):
        return self._wrap(self._arr | self._raw(o))

    def __invert__(self):
        return self._wrap(~self._arr)

    def __contains__(self, v):
        return bool((self._arr == v).any())

    def __len__(self):
        return len(self._arr)

    def __iter__(self):
        return iter(self._arr)

    def __getattr__(self, name):
        if name.startswith("_"):
            raise AttributeError(name)
        if name == "dt":
            if self._arr._dt.kind != "M":
                raise AttributeError("Can only use .dt accessor with datetimelike values")
            return _DtAccessor(self)
        c = self.__dict__.get("_coords", {})
        if name in c:
            return GridArray(c[name], (name,), {name: c[name]})
        raise Unsupported(f"DataArray.{name}")

    def __getitem__(self, key):
        if not isinstance(key, tuple):
            key = (key,)
        if len(key) > len(self.dims):
            raise IndexError("too many indices")
        key = key + (slice(None),) * (len(self.dims) - len(key))
        a = self._arr.a
        sel, kept = [], []
        coords = {}
        for axis, (k, d) in enumerate(zip(key, self.dims)):
            n = a.shape[axis]
            if isinstance(k, GridArray):
                if k.dims != (d,) and k._arr._dt.kind == "b":
                    raise Unsupported("boolean DataArray indexer along another dimension")
                k = k._arr
            if isinstance(k, slice):
                pos = list(range(n))[k]
            elif isinstance(k, (int, _np.integer, SInt)):
                i = int(k)
                if i < -n or i >= n:
                    raise IndexError(f"index {i} is out of bounds for axis {axis} with size {n}")
                sel.append([i % n])
                continue_scalar = True
                kept.append(None)
                continue
            elif isinstance(k, (snp.ndarray, _np.ndarray, list)):
                k = k if isinstance(k, snp.ndarray) else snp.asarray(k)
                if k.a.ndim != 1:
                    raise Unsupported("n-d array indexer")
                if k._dt.kind == "b":
                    if k.a.shape[0] != n:
                        raise IndexError(f"Boolean array size {k.a.shape[0]} is used to index array with shape ({n},).")
                    pos = [i for i, c in enumerate(k.a) if bool(c)]       # forks on each undecided bit
                else:
                    pos = [int(i) for i in k.a]
            else:
                raise Unsupported(f"DataArray indexer {type(k).__name__}")
            sel.append(pos)
            kept.append(d)
            if d in self._coords:
                coords[d] = snp.ndarray(self._coords[d].a[pos].copy(), self._coords[d]._dt)
        out = a[_np.ix_(*sel)] if sel else a
        shape = tuple(len(p) for p, d in zip(sel, kept) if d is not None)
        out = out.reshape(shape).copy()
        dims = tuple(d for d in kept if d is not None)
        if not dims:
            return GridArray(snp.ndarray(out.reshape(()), self._arr._dt), (), {})
        return GridArray(snp.ndarray(out, self._arr._dt), dims, coords)


class GridDataset:
    def __init__(self, data_vars, coords):
        """coords: {dim: 1-d snp.ndarray}; data_vars: {name: (dims, snp.ndarray)}"""
        self._coords = dict(coords)
        self._vars = dict(data_vars)

    def __contains__(self, k):
        return k in self._vars or k in self._coords

    def __getitem__(self, name):
        if name in self._coords:
            return GridArray(self._coords[name], (name,), {name: self._coords[name]})
        if name in self._vars:
            dims, arr = self._vars[name]
            return GridArray(arr, dims, {d: self._coords[d] for d in dims if d in self._coords})
        if isinstance(name, str) and "." in name:
            base, attr = name.split(".", 1)
            return getattr(self[base].dt, attr)
        raise KeyError(name)

    def close(self):
        pass


core = _t.SimpleNamespace(indexing=_t.SimpleNamespace(map_index_queries=map_index_queries))


def __getattr__(name):
    from .values import UnsupportedAttribute
    if name.startswith("__"):
        raise AttributeError(name)
    raise UnsupportedAttribute(f"xarray.{name}")
