"""xarray model (filled in with C05)."""
from .values import Unsupported


class Dataset:
    def __init__(self, *a, **k):
        raise Unsupported("xarray Dataset model not built yet")


class DataArray:
    pass


def open_dataset(*a, **k):
    raise Unsupported("xarray.open_dataset")


def load_dataset(*a, **k):
    raise Unsupported("xarray.load_dataset")


import types as _t
core = _t.SimpleNamespace(indexing=_t.SimpleNamespace(map_index_queries=None))
