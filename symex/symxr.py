"""xarray model (DESIGN §3.3): a 1-D Dataset whose variables share one dimension, with an optional dimension
coordinate (sorted times) used for label slicing."""
from __future__ import annotations

import types as _t

import numpy as _np

from . import explorer as _ex
from . import symnp as snp
from .values import SBool, SInt, STime, Sym, Unsupported, as_stime


class _Var:
    """Dataset.variables[name]"""

    def __init__(self, arr, dims):
        self._arr, self.dims = arr, dims

    def to_numpy(self):
        return self._arr.copy()

    @property
    def values(self):
        return self._arr.copy()

    @property
    def dtype(self):
        return self._arr._dt

    @property
    def shape(self):
        return self._arr.shape

    @property
    def size(self):
        return self._arr.size

    @property
    def ndim(self):
        return self._arr.ndim


class _Coords(dict):
    pass


class DataArray:
    def __init__(self, ds, name, arr, positions=None):
        self._ds, self.name, self._arr = ds, name, arr
        self.dims = ds._dims[name]
        self._positions = positions      # row positions relative to the dataset (None = all)

    @property
    def coords(self):
        out = _Coords()
        for cname in self._ds._coords:
            if self._ds._dims[cname] == self.dims:
                arr = self._ds._arrs[cname]
                if self._positions is not None:
                    arr = arr[self._positions]
                out[cname] = DataArray(self._ds, cname, arr, self._positions)
        return out

    @property
    def size(self):
        return self._arr.size

    @property
    def ndim(self):
        return self._arr.ndim

    @property
    def shape(self):
        return self._arr.shape

    @property
    def dtype(self):
        return self._arr._dt

    @property
    def values(self):
        return self._arr.copy()

    def to_numpy(self):
        return self._arr.copy()

    def sel(self, **indexers):
        if not indexers:
            return DataArray(self._ds, self.name, self._arr, self._positions)
        sl = self._ds._label_slices(self, indexers)
        (dim, s), = sl.items()
        if self._positions is not None:
            raise Unsupported("nested sel")
        return DataArray(self._ds, self.name, self._arr[s] if isinstance(s, slice) else self._arr[s], s)

    def __getitem__(self, k):
        return self._arr[k]


class Dataset:
    def __init__(self, data_vars=None, coords=None, attrs=None):
        self._arrs, self._dims, self._coords = {}, {}, []
        self.attrs = dict(attrs or {})
        for name, (dims, arr) in (coords or {}).items():
            self._add(name, dims, arr)
            self._coords.append(name)
        for name, (dims, arr) in (data_vars or {}).items():
            self._add(name, dims, arr)

    def _add(self, name, dims, arr):
        if isinstance(dims, str):
            dims = (dims,)
        if not isinstance(arr, snp.ndarray):
            arr = snp.asarray(arr)
        if arr.a.ndim != len(dims):
            raise ValueError("dimensions do not match the array")
        self._arrs[name] = arr
        self._dims[name] = tuple(dims)

    @property
    def variables(self):
        return {k: _Var(v, self._dims[k]) for k, v in self._arrs.items()}

    @property
    def data_vars(self):
        return {k: self[k] for k in self._arrs if k not in self._coords}

    @property
    def dims(self):
        out = {}
        for k, d in self._dims.items():
            for dn, n in zip(d, self._arrs[k].shape):
                out[dn] = n
        return out

    def __contains__(self, k):
        return k in self._arrs

    def __getitem__(self, name):
        if name not in self._arrs:
            raise KeyError(name)
        return DataArray(self, name, self._arrs[name])

    def close(self):
        pass

    def filter_by_attrs(self, **kw):
        raise Unsupported("Dataset.filter_by_attrs")

    def _label_slices(self, da, indexers):
        """{dim: slice(i, j)} for a label slice on a sorted dimension coordinate (pandas slice_indexer: both ends
        inclusive): i = #(t < start), j = #(t <= stop)."""
        out = {}
        for dim, lab in indexers.items():
            if dim not in da.dims:
                raise KeyError(f"{dim!r} is not a valid dimension or coordinate")
            if dim not in self._coords or self._dims[dim] != (dim,):
                raise KeyError(f"no index found for coordinate {dim!r}")
            idx = self._arrs[dim]
            if isinstance(lab, snp.ndarray):
                # an array of labels: each must be found in the (unique) index; positions in the given order
                pos = []
                for x in lab.a.flat:
                    found = None
                    for k, t in enumerate(idx.a):
                        if t is x:
                            found = k
                            break
                    if found is None:
                        for k, t in enumerate(idx.a):
                            if bool(t == x):
                                found = k
                                break
                    if found is None:
                        raise KeyError(f"not all values found in index {dim!r}")
                    pos.append(found)
                ex = _ex.current()
                ts = list(idx.a)
                for i in range(len(ts)):
                    for j in range(i + 1, len(ts)):
                        ex.side_condition((ts[i] != ts[j]).b, "label-array selection on an index with duplicate labels")
                out[dim] = _np.array(pos, dtype=int)
                continue
            if not isinstance(lab, slice) or lab.step is not None:
                raise Unsupported("label indexer other than a plain slice or a label array")
            ex = _ex.current()
            ts = list(idx.a)
            for a, b in zip(ts, ts[1:]):
                ex.side_condition((a <= b).b, "label slice on a non-monotonic dimension coordinate")
            n = len(ts)
            if lab.start is None:
                i = 0
            else:
                st = as_stime(lab.start)
                i = 0
                while i < n and bool(ts[i] < st):
                    i += 1
            if lab.stop is None:
                j = n
            else:
                sp = as_stime(lab.stop)
                j = 0
                while j < n and bool(ts[j] <= sp):
                    j += 1
            out[dim] = slice(i, j, None)
        return out


def map_index_queries(da, indexers, **kw):
    sl = da._ds._label_slices(da, indexers) if indexers else {}
    return _t.SimpleNamespace(dim_indexers=sl)


def open_dataset(*a, **k):
    raise Unsupported("xarray.open_dataset")


def load_dataset(*a, **k):
    raise Unsupported("xarray.load_dataset")


core = _t.SimpleNamespace(indexing=_t.SimpleNamespace(map_index_queries=map_index_queries))


def __getattr__(name):
    from .values import UnsupportedAttribute
    if name.startswith("__"):
        raise AttributeError(name)
    raise UnsupportedAttribute(f"xarray.{name}")
