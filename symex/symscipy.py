"""scipy.interpolate stub (environment model, DESIGN §3.3): CubicSpline under the one contract the config-creator property needs."""
from __future__ import annotations

import types as _t

import numpy as _np

from . import explorer as _ex
from . import symnp as snp
from .values import Unsupported, mk_and, mk_eq, mk_or


class CubicSpline:
    """Contract (scipy.interpolate.CubicSpline, bc_type="periodic"): `x` strictly increasing, else ValueError; first and last row
    of `y` equal, else ValueError; **for data that is constant along axis 0 the interpolant is that constant** at every query
    point.  Data that varies along axis 0 is outside the stub (the job becomes inconclusive)."""

    def __init__(self, x, y, bc_type="not-a-knot", **kw):
        if kw:
            raise Unsupported("CubicSpline options")
        x = x if isinstance(x, snp.ndarray) else snp.asarray(x)
        y = y if isinstance(y, snp.ndarray) else snp.asarray(y)
        xs = [int(v) for v in x.a.flat]
        if x.a.ndim != 1:
            raise ValueError("`x` must be 1-dimensional.")
        if len(xs) < 2:
            raise ValueError("`x` must contain at least 2 elements.")
        if y.a.shape[0] != len(xs):
            raise ValueError(f"The length of `y` along `axis`=0 doesn't match the length of `x`")
        for v in y.a.flat:
            if bool(snp.SBool(v.nan)):
                raise ValueError("`y` must contain only finite values.")
        if any(b <= a for a, b in zip(xs, xs[1:])):
            raise ValueError("`x` must be strictly increasing sequence.")
        rows = [list(y.a[i].flat) for i in range(len(xs))]
        if bc_type == "periodic":
            same = mk_and(*[mk_eq(a.v, b.v) for a, b in zip(rows[0], rows[-1])])
            if not bool(snp.SBool(same)):
                raise ValueError("The first and last `y` point along axis 0 must be identical when bc_type=\'periodic\'.")
        const = mk_and(*[mk_eq(a.v, b.v) for r in rows[1:] for a, b in zip(rows[0], r)])
        ex = _ex.current()
        if not bool(snp.SBool(const)):
            raise Unsupported("CubicSpline of data that varies along the interpolation axis")
        self._row = y.a[0].copy()
        self._dt = y._dt

    def __call__(self, q):
        q = list(q) if not isinstance(q, snp.ndarray) else list(q.a.flat)
        out = snp._obj((len(q),) + self._row.shape)
        for i in range(len(q)):
            out[i] = self._row
        return snp.ndarray(out, self._dt)


interpolate = _t.SimpleNamespace(CubicSpline=CubicSpline)
