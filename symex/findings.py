"""Known-findings file handling (DESIGN §6).  The file is read-only at run time."""
from __future__ import annotations

import base64
import json
import os
import pickle

import numpy as np
import z3

from .harness import (Outcome, RealKit, RealMods, Struct, jsonable)
from .values import SBool, SDelta, SFloat, SInt, STime, TRUE, FALSE

VERIF = os.path.dirname(os.path.dirname(os.path.abspath(__file__)))
PATH = os.path.join(VERIF, "known_findings.json")


def load():
    if not os.path.exists(PATH):
        return {"findings": []}
    with open(PATH) as f:
        return json.load(f)


def open_findings(prop):
    return [f for f in load()["findings"] if f.get("status") == "open" and prop in f.get("properties", [f.get("property")])]


def open_ids(prop):
    return {f["id"] for f in open_findings(prop)}


def pack(Sc):
    return base64.b64encode(pickle.dumps(Sc)).decode()


def unpack(s):
    return pickle.loads(base64.b64decode(s.encode()))


def symbolize(x):
    """Concrete structure -> structure of constant symbolic scalars (so that Job.holds can be evaluated)."""
    import math
    if isinstance(x, bool):
        return SBool(x)
    if isinstance(x, (int, np.integer)):
        return SInt(int(x))
    if isinstance(x, (float, np.floating)):
        return SFloat.const(float(x))
    if isinstance(x, np.datetime64):
        if np.isnat(x):
            return STime(0, TRUE)
        from .values import as_stime
        return as_stime(x)
    if isinstance(x, np.timedelta64):
        if np.isnat(x):
            return SDelta(0, TRUE)
        from .values import as_sdelta
        return as_sdelta(x)
    if isinstance(x, str):
        return x
    if isinstance(x, dict):
        return {k: symbolize(v) for k, v in x.items()}
    if isinstance(x, list):
        return [symbolize(v) for v in x]
    if isinstance(x, tuple):
        return tuple(symbolize(v) for v in x)
    if isinstance(x, Struct):
        return Struct(**{k: symbolize(v) for k, v in vars(x).items()})
    return x


def replay_inputs(job, Sc):
    """Run the real entry point of `job` on concrete inputs; -> (outcome, failed_labels)."""
    import warnings
    try:
        with warnings.catch_warnings():
            warnings.simplefilter("ignore")
            with np.errstate(all="ignore"):
                r = job.invoke(RealMods(), Sc, RealKit())
        out = job.observe(r)
    except Exception as e:
        out = Outcome(exc=e)
    Ss = symbolize(Sc)
    failed = []
    from .harness import concrete_truth
    for label, f in job.holds(Ss, out):
        if not concrete_truth(None, f):
            failed.append(label)
    return out, failed


def find_job(mod, name):
    for tier in ("quick", "thorough"):
        for j in mod.jobs(tier):
            if j.name == name:
                return j
    return None
