"""Symbolic scalar values used by the environment model.

Every value wraps z3 terms.  Floats are NaN-extended reals (DESIGN §4), integers
are mathematical integers, times are whole seconds since the Unix epoch.
Constant folding is done eagerly so that terms stay small.
"""
from __future__ import annotations

import datetime as _dt
import math
from fractions import Fraction

import z3

from . import explorer as _ex

TRUE = z3.BoolVal(True)
FALSE = z3.BoolVal(False)


class Unsupported(Exception):
    """The environment model does not implement an operation -> job is inconclusive."""

    def __init__(self, msg):
        super().__init__(msg)
        ex = _ex.current(optional=True)
        if ex is not None:
            ex.poison(f"UNSUPPORTED {msg}")


class UnsupportedAttribute(Unsupported, AttributeError):
    """A library attribute the model does not provide (hasattr() sees it as absent; the path is poisoned)."""


def _sym_hash(obj, const_value):
    """hash() of a symbolic scalar: constants hash like their value; a genuinely symbolic value used as a set member / dict key
    cannot be followed (equal values must collide, which object identity would not give) -> the path is inconclusive"""
    if const_value is not None:
        return hash(const_value)
    if _ex.current(optional=True) is not None:
        raise Unsupported("hash() of a symbolic value (set member / dict key)")
    return object.__hash__(obj)


def missing_attr(real_cls, name, label):
    """__getattr__ of a model class: an attribute the REAL class has but the model lacks makes the path inconclusive (it must not
    look like an AttributeError of the code under analysis); one the real class lacks too is an ordinary AttributeError"""
    if name.startswith("__") and name.endswith("__"):
        raise AttributeError(name)
    if hasattr(real_cls, name):
        raise UnsupportedAttribute(f"{label}.{name}")
    raise AttributeError(f"{label!r} object has no attribute {name!r}")


# ----------------------------------------------------------------------------
# boolean term helpers with constant folding
# ----------------------------------------------------------------------------

def is_t(b):
    return z3.is_true(b)


def is_f(b):
    return z3.is_false(b)


def mk_not(a):
    if is_t(a):
        return FALSE
    if is_f(a):
        return TRUE
    if z3.is_not(a):
        return a.arg(0)
    return z3.Not(a)


def mk_and(*xs):
    out = []
    for x in xs:
        if is_f(x):
            return FALSE
        if is_t(x):
            continue
        out.append(x)
    if not out:
        return TRUE
    if len(out) == 1:
        return out[0]
    return z3.And(*out)


def mk_or(*xs):
    out = []
    for x in xs:
        if is_t(x):
            return TRUE
        if is_f(x):
            continue
        out.append(x)
    if not out:
        return FALSE
    if len(out) == 1:
        return out[0]
    return z3.Or(*out)


def mk_if(c, a, b):
    if is_t(c):
        return a
    if is_f(c):
        return b
    if a.eq(b):
        return a
    return z3.If(c, a, b)


def mk_eq(a, b):
    if a.eq(b):
        return TRUE
    if z3.is_bool(a):
        if is_t(b):
            return a
        if is_f(b):
            return mk_not(a)
        if is_t(a):
            return b
        if is_f(a):
            return mk_not(b)
        return a == b
    if _is_num(a) and _is_num(b):
        return TRUE if _numval(a) == _numval(b) else FALSE
    return a == b


def mk_xor(a, b):
    return mk_not(mk_eq(a, b))


def _is_num(t):
    return z3.is_rational_value(t) or z3.is_int_value(t)


def _numval(t):
    if z3.is_int_value(t):
        return Fraction(t.as_long())
    return Fraction(t.numerator_as_long(), t.denominator_as_long())


def rv(x):
    """Python number -> z3 Real numeral (exact)."""
    if isinstance(x, bool):
        x = int(x)
    if isinstance(x, int):
        return z3.RealVal(x)
    if isinstance(x, Fraction):
        return z3.RealVal(f"{x.numerator}/{x.denominator}")
    if isinstance(x, float):
        f = Fraction(x)
        return z3.RealVal(f"{f.numerator}/{f.denominator}")
    raise TypeError(type(x))


def _arith(op, a, b):
    """Constant-folding arithmetic on z3 terms of equal sort."""
    if _is_num(a) and _is_num(b):
        x, y = _numval(a), _numval(b)
        if op == "+":
            r = x + y
        elif op == "-":
            r = x - y
        elif op == "*":
            r = x * y
        elif op == "/":
            if y == 0:
                return a / b
            r = x / y
        else:
            raise ValueError(op)
        if z3.is_int(a) and z3.is_int(b) and op != "/":
            return z3.IntVal(int(r))
        return rv(r)
    if op == "+":
        if _is_num(a) and _numval(a) == 0:
            return b
        if _is_num(b) and _numval(b) == 0:
            return a
        return a + b
    if op == "-":
        if _is_num(b) and _numval(b) == 0:
            return a
        return a - b
    if op == "*":
        for p, q in ((a, b), (b, a)):
            if _is_num(p):
                if _numval(p) == 1:
                    return q
                if _numval(p) == 0:
                    return p
        # distribute over an If-tree with numeral leaves so that sign(x)*y stays linear
        for p, q in ((a, b), (b, a)):
            if not _is_num(q) and not _is_num(p) and _is_small_const_tree(p):
                return _distribute(p, q)
        return a * b
    if op == "/":
        if _is_num(b) and _numval(b) == 1:
            return a
        return a / b
    raise ValueError(op)


def _is_small_const_tree(t, depth=4):
    if _is_num(t):
        return True
    if depth and z3.is_app_of(t, z3.Z3_OP_ITE):
        return _is_small_const_tree(t.arg(1), depth - 1) and _is_small_const_tree(t.arg(2), depth - 1)
    return False


def _distribute(tree, q):
    if _is_num(tree):
        v = _numval(tree)
        if v == 1:
            return q
        if v == 0:
            return tree
        if v == -1:
            return -q
        return tree * q
    return mk_if(tree.arg(0), _distribute(tree.arg(1), q), _distribute(tree.arg(2), q))


def _cmp(op, a, b):
    if _is_num(a) and _is_num(b):
        x, y = _numval(a), _numval(b)
        r = {"<": x < y, "<=": x <= y, ">": x > y, ">=": x >= y}[op]
        return TRUE if r else FALSE
    if op == "<":
        return a < b
    if op == "<=":
        return a <= b
    if op == ">":
        return a > b
    return a >= b


# ----------------------------------------------------------------------------
# scalar classes
# ----------------------------------------------------------------------------

class Sym:
    __slots__ = ()
    __array_priority__ = 1000

    def __format__(self, spec):
        if spec in ("", "s"):
            return _register_fmt(self)
        import re as _re
        m = _re.fullmatch(r"\.(\d+)f", spec)
        if m and isinstance(self, (SFloat, SInt)):
            # fixed-point formatting rounds to that many decimals (round-half-even on the exact value)
            if isinstance(self, SInt):
                return _register_fmt(self)
            from . import symnp
            return _register_fmt(symnp.round(self, int(m.group(1))))
        if spec == "d" and isinstance(self, SInt):
            return _register_fmt(self)
        raise Unsupported(f"format spec {spec!r} applied to a symbolic value")

    def __repr__(self):
        return f"<{type(self).__name__} {self._short()}>"


_FMT = {}


def _register_fmt(v):
    key = f"⟦sym{len(_FMT)}⟧"
    _FMT[key] = v
    return key


def lookup_fmt(s):
    """Recover a symbolic value embedded in a formatted string ('⟦sym3⟧s' -> (value, 's'))."""
    for k, v in _FMT.items():
        if s.startswith(k):
            return v, s[len(k):]
    return None, s


class SBool(Sym):
    __slots__ = ("b",)

    def __init__(self, b):
        if isinstance(b, (bool,)):
            b = TRUE if b else FALSE
        self.b = b

    def _short(self):
        return str(self.b)[:60]

    def __bool__(self):
        if is_t(self.b):
            return True
        if is_f(self.b):
            return False
        return _ex.current().decide(self.b)

    def __invert__(self):
        return SBool(mk_not(self.b))

    def __and__(self, o):
        o = as_sbool(o)
        if o is NotImplemented:
            return o
        return SBool(mk_and(self.b, o.b))

    __rand__ = __and__

    def __or__(self, o):
        o = as_sbool(o)
        if o is NotImplemented:
            return o
        return SBool(mk_or(self.b, o.b))

    __ror__ = __or__

    def __xor__(self, o):
        o = as_sbool(o)
        if o is NotImplemented:
            return o
        return SBool(mk_xor(self.b, o.b))

    __rxor__ = __xor__

    def __eq__(self, o):
        o2 = as_sbool(o)
        if o2 is NotImplemented:
            return o2
        return SBool(mk_eq(self.b, o2.b))

    def __ne__(self, o):
        o2 = as_sbool(o)
        if o2 is NotImplemented:
            return o2
        return SBool(mk_xor(self.b, o2.b))

    __hash__ = object.__hash__

    # numpy bools act as 0/1 in arithmetic
    def _as_int(self):
        return SInt(mk_if(self.b, z3.IntVal(1), z3.IntVal(0)))

    def __mul__(self, o):
        return self._as_int() * o

    __rmul__ = __mul__

    def __add__(self, o):
        return self._as_int() + o

    __radd__ = __add__

    def __sym_int__(self):
        return self._as_int()

    def __sym_float__(self):
        return self._as_int().__sym_float__()


def as_sbool(o):
    if isinstance(o, SBool):
        return o
    if isinstance(o, (bool,)) or type(o).__name__ == "bool_" or type(o).__name__ == "bool":
        return SBool(bool(o))
    if isinstance(o, MaskedConstant):
        return NotImplemented
    return NotImplemented


class SInt(Sym):
    __slots__ = ("v",)

    def __init__(self, v):
        if isinstance(v, bool):
            v = int(v)
        if isinstance(v, int):
            v = z3.IntVal(v)
        self.v = v

    def _short(self):
        return str(self.v)[:60]

    @property
    def is_const(self):
        return z3.is_int_value(self.v)

    def const(self):
        return self.v.as_long()

    def __index__(self):
        if self.is_const:
            return self.const()
        return _ex.current().concretize(self.v)

    __int__ = __index__

    def __sym_int__(self):
        return self

    def __sym_float__(self):
        v = self.v
        return SFloat(FALSE, rv(v.as_long()) if z3.is_int_value(v) else z3.ToReal(v))

    def __float__(self):
        return float(self.__index__())

    def __bool__(self):
        return bool(SBool(mk_not(mk_eq(self.v, z3.IntVal(0)))))

    def __hash__(self):
        return _sym_hash(self, self.const() if self.is_const else None)

    def _bin(self, o, op, rev=False):
        if isinstance(o, SFloat):
            return NotImplemented
        if isinstance(o, float) or type(o).__name__ in ("float64", "float32"):
            a = self.__sym_float__()
            b = SFloat.const(float(o))
            return b._bin(a, op) if rev else a._bin(b, op)
        o = as_sint(o)
        if o is NotImplemented:
            return o
        a, b = (o.v, self.v) if rev else (self.v, o.v)
        if op == "/":
            return SInt(a).__sym_float__()._bin(SInt(b).__sym_float__(), "/")
        if op == "//":
            _ex.current().side_condition(mk_not(mk_eq(b, z3.IntVal(0))), "integer division by zero")
            if z3.is_int_value(a) and z3.is_int_value(b) and b.as_long() != 0:
                return SInt(a.as_long() // b.as_long())
            return SInt(_floordiv(a, b))
        if op == "%":
            if z3.is_int_value(a) and z3.is_int_value(b) and b.as_long() != 0:
                return SInt(a.as_long() % b.as_long())
            return SInt(a - b * _floordiv(a, b))
        return SInt(_arith(op, a, b))

    def __add__(self, o):
        return self._bin(o, "+")

    def __radd__(self, o):
        return self._bin(o, "+", True)

    def __sub__(self, o):
        return self._bin(o, "-")

    def __rsub__(self, o):
        return self._bin(o, "-", True)

    def __mul__(self, o):
        return self._bin(o, "*")

    def __rmul__(self, o):
        return self._bin(o, "*", True)

    def __truediv__(self, o):
        return self._bin(o, "/")

    def __rtruediv__(self, o):
        return self._bin(o, "/", True)

    def __floordiv__(self, o):
        return self._bin(o, "//")

    def __rfloordiv__(self, o):
        return self._bin(o, "//", True)

    def __mod__(self, o):
        return self._bin(o, "%")

    def __rmod__(self, o):
        return self._bin(o, "%", True)

    def __neg__(self):
        return SInt(_arith("-", z3.IntVal(0), self.v))

    def __abs__(self):
        if self.is_const:
            return SInt(abs(self.const()))
        return SInt(mk_if(self.v >= 0, self.v, -self.v))

    def _cmp(self, o, op):
        if isinstance(o, SFloat):
            return NotImplemented
        if isinstance(o, float) or type(o).__name__ in ("float64", "float32"):
            return self.__sym_float__()._cmp(SFloat.const(float(o)), op)
        o = as_sint(o)
        if o is NotImplemented:
            return o
        if op == "==":
            return SBool(mk_eq(self.v, o.v))
        if op == "!=":
            return SBool(mk_not(mk_eq(self.v, o.v)))
        return SBool(_cmp(op, self.v, o.v))

    def __lt__(self, o):
        return self._cmp(o, "<")

    def __le__(self, o):
        return self._cmp(o, "<=")

    def __gt__(self, o):
        return self._cmp(o, ">")

    def __ge__(self, o):
        return self._cmp(o, ">=")

    def __eq__(self, o):
        return self._cmp(o, "==")

    def __ne__(self, o):
        return self._cmp(o, "!=")

    def astype(self, t):
        from . import symnp
        return symnp.cast_scalar(self, symnp.dtype(t))


def _floordiv(a, b):
    """Python floor division on z3 Ints (z3's div is Euclidean: differs for negative divisors)."""
    if z3.is_int_value(b) and b.as_long() > 0:
        return a / b
    q = a / b
    return mk_if(b > 0, q, mk_if(mk_eq(a - b * q, z3.IntVal(0)), q, q - 1)) if not z3.is_int_value(b) else mk_if(
        mk_eq(a - b * q, z3.IntVal(0)), q, q - 1)


def as_sint(o):
    if isinstance(o, SInt):
        return o
    if isinstance(o, SBool):
        return o._as_int()
    if isinstance(o, bool):
        return SInt(int(o))
    if isinstance(o, int):
        return SInt(o)
    tn = type(o).__name__
    if tn in ("int64", "uint8", "int32", "intp", "int8", "uint64", "bool_", "bool"):
        return SInt(int(o))
    return NotImplemented


class SFloat(Sym):
    """NaN-extended real.  `nan` is a z3 Bool, `v` a z3 Real (meaningless when nan)."""

    __slots__ = ("nan", "v", "root2")

    def __init__(self, nan, v, root2=None):
        self.nan = nan
        self.v = v
        # root2: if set, the real value is sqrt(root2) (lazy root, only comparisons are supported)
        self.root2 = root2

    @staticmethod
    def const(x):
        if isinstance(x, float) and math.isnan(x):
            return SFloat(TRUE, rv(0))
        if isinstance(x, float) and math.isinf(x):
            raise Unsupported("infinite float constant")
        return SFloat(FALSE, rv(x))

    def _short(self):
        return f"nan={str(self.nan)[:30]} v={str(self.v)[:50]}"

    @property
    def is_const(self):
        return (is_t(self.nan)) or (is_f(self.nan) and _is_num(self.v) and self.root2 is None)

    def const_value(self):
        if is_t(self.nan):
            return float("nan")
        return _numval(self.v)

    def __sym_float__(self):
        return self

    def __float__(self):
        if self.is_const:
            return float(self.const_value())
        raise Unsupported("float() realisation of a symbolic float")

    def __sym_int__(self):
        self._noroot()
        _ex.current().side_condition(mk_not(self.nan), "int() of NaN")
        v = self.v
        if _is_num(v):
            return SInt(int(_numval(v)))  # trunc toward zero (Fraction -> int truncates)
        return SInt(mk_if(v >= 0, z3.ToInt(v), -z3.ToInt(-v)))

    def __index__(self):
        raise TypeError("float is not an index")

    def __bool__(self):
        return bool(SBool(mk_or(self.nan, mk_not(mk_eq(self.v, rv(0))))))

    def __hash__(self):
        if self.is_const:
            c = self.const_value()
            return _sym_hash(self, float(c) if c == c else ("nan", id(self)))
        return _sym_hash(self, None)

    def _noroot(self):
        if self.root2 is not None:
            raise Unsupported("arithmetic on a lazy square root")

    def _bin(self, o, op, rev=False):
        o = as_sfloat(o)
        if o is NotImplemented:
            return o
        if op == "*":
            # 1 * sqrt(V) keeps the lazy root (np.ones_like(flags) * np.std(x))
            for p, q in ((self, o), (o, self)):
                if p.root2 is None and is_f(p.nan) and _is_num(p.v) and _numval(p.v) == 1:
                    return q
        self._noroot()
        o._noroot()
        a, b = (o, self) if rev else (self, o)
        nan = mk_or(a.nan, b.nan)
        if op == "/":
            _ex.current().side_condition(mk_or(nan, mk_not(mk_eq(b.v, rv(0)))), "float division by zero")
        return SFloat(nan, _arith(op, a.v, b.v))

    def __add__(self, o):
        return self._bin(o, "+")

    def __radd__(self, o):
        return self._bin(o, "+", True)

    def __sub__(self, o):
        return self._bin(o, "-")

    def __rsub__(self, o):
        return self._bin(o, "-", True)

    def __mul__(self, o):
        return self._bin(o, "*")

    def __rmul__(self, o):
        return self._bin(o, "*", True)

    def __truediv__(self, o):
        return self._bin(o, "/")

    def __rtruediv__(self, o):
        return self._bin(o, "/", True)

    def __neg__(self):
        self._noroot()
        return SFloat(self.nan, _arith("-", rv(0), self.v))

    def __pos__(self):
        return self

    def __abs__(self):
        if self.root2 is not None:
            return self
        v = self.v
        if _is_num(v):
            return SFloat(self.nan, rv(abs(_numval(v))))
        return SFloat(self.nan, mk_if(v >= 0, v, -v))

    def _cmp(self, o, op):
        o = as_sfloat(o)
        if o is NotImplemented:
            return o
        if self.root2 is not None or o.root2 is not None:
            return _root_cmp(self, o, op)
        ok = mk_and(mk_not(self.nan), mk_not(o.nan))
        if op == "==":
            return SBool(mk_and(ok, mk_eq(self.v, o.v)))
        if op == "!=":
            return SBool(mk_or(mk_not(ok), mk_not(mk_eq(self.v, o.v))))
        return SBool(mk_and(ok, _cmp(op, self.v, o.v)))

    def __lt__(self, o):
        return self._cmp(o, "<")

    def __le__(self, o):
        return self._cmp(o, "<=")

    def __gt__(self, o):
        return self._cmp(o, ">")

    def __ge__(self, o):
        return self._cmp(o, ">=")

    def __eq__(self, o):
        return self._cmp(o, "==")

    def __ne__(self, o):
        return self._cmp(o, "!=")

    def astype(self, t):
        from . import symnp
        return symnp.cast_scalar(self, symnp.dtype(t))

    def isnan(self):
        return SBool(self.nan)


def _root_cmp(a, b, op):
    """Comparison where one side is a lazy sqrt(root2) and the other an ordinary value."""
    flip = {"<": ">", "<=": ">=", ">": "<", ">=": "<=", "==": "==", "!=": "!="}
    if a.root2 is None:
        a, b, op = b, a, flip[op]
    if b.root2 is not None:
        raise Unsupported("comparison of two lazy roots")
    ok = mk_and(mk_not(a.nan), mk_not(b.nan))
    V, t = a.root2, b.v  # sqrt(V) op t,  V >= 0
    t2 = t * t
    ex = _ex.current(optional=True)
    if ex is not None:
        ex.event("rootcmp", (V, t2))
    neg = t < 0
    if op == "<":
        r = mk_and(mk_not(neg), V < t2)
    elif op == "<=":
        r = mk_and(mk_not(neg), V <= t2)
    elif op == ">":
        r = mk_or(neg, V > t2)
    elif op == ">=":
        r = mk_or(neg, V >= t2)
    elif op == "==":
        r = mk_and(mk_not(neg), V == t2)
    else:
        return SBool(mk_or(mk_not(ok), mk_or(neg, V != t2)))
    return SBool(mk_and(ok, r))


def as_sfloat(o):
    if isinstance(o, SFloat):
        return o
    if isinstance(o, (SInt, SBool)):
        return o.__sym_float__()
    if isinstance(o, bool):
        return SFloat.const(int(o))
    if isinstance(o, (int, float, Fraction)):
        return SFloat.const(o)
    tn = type(o).__name__
    if tn in ("float64", "float32", "int64", "uint8", "int32", "longdouble"):
        return SFloat.const(float(o) if "float" in tn else int(o))
    return NotImplemented


# ----------------------------------------------------------------------------
# time
# ----------------------------------------------------------------------------

EPOCH = _dt.datetime(1970, 1, 1)


def _f0(f):
    return f is None or (_is_num(f) and _numval(f) == 0)


def _lex(op, s1, f1, s2, f2):
    """(s1 + f1) op (s2 + f2) for Int seconds s and Real fractions f in [0,1)"""
    if _f0(f1) and _f0(f2):
        if op == "==":
            return mk_eq(s1, s2)
        return _cmp(op, s1, s2)
    f1 = rv(0) if f1 is None else f1
    f2 = rv(0) if f2 is None else f2
    if op == "==":
        return mk_and(mk_eq(s1, s2), mk_eq(f1, f2))
    if op == "<":
        return mk_or(_cmp("<", s1, s2), mk_and(mk_eq(s1, s2), _cmp("<", f1, f2)))
    if op == "<=":
        return mk_or(_cmp("<", s1, s2), mk_and(mk_eq(s1, s2), _cmp("<=", f1, f2)))
    if op == ">":
        return _lex("<", s2, f2, s1, f1)
    return _lex("<=", s2, f2, s1, f1)


def _sub_sf(s1, f1, s2, f2):
    """normalised (s, f) of (s1+f1) - (s2+f2)"""
    if _f0(f1) and _f0(f2):
        return _arith("-", s1, s2), None
    f1 = rv(0) if f1 is None else f1
    f2 = rv(0) if f2 is None else f2
    ge = _cmp(">=", f1, f2)
    return _arith("-", s1, s2) + mk_if(ge, z3.IntVal(0), z3.IntVal(-1)), mk_if(ge, f1 - f2, f1 - f2 + 1)


def _add_sf(s1, f1, s2, f2):
    if _f0(f1) and _f0(f2):
        return _arith("+", s1, s2), None
    f1 = rv(0) if f1 is None else f1
    f2 = rv(0) if f2 is None else f2
    carry = _cmp(">=", f1 + f2, rv(1))
    return _arith("+", s1, s2) + mk_if(carry, z3.IntVal(1), z3.IntVal(0)), mk_if(carry, f1 + f2 - 1, f1 + f2)


class STime(Sym):
    """datetime64: whole seconds since the epoch (z3 Int) + optional sub-second fraction f in [0,1) (z3 Real) + NaT flag."""

    __slots__ = ("nat", "s", "f")

    def __init__(self, s, nat=FALSE, f=None):
        if isinstance(s, int):
            s = z3.IntVal(s)
        self.s = s
        self.nat = nat
        self.f = None if _f0(f) else f

    def _short(self):
        return f"{str(self.s)[:50]}" + ("" if self.f is None else f"+{str(self.f)[:20]}")

    # (time stamps are hashed by identity: Config keys its contexts - and with them their window bounds - in a dict; two contexts
    #  whose symbolic windows happen to be equal stay apart in the model, which a witness with equal windows exposes as a mismatch)
    __hash__ = object.__hash__

    @property
    def is_const(self):
        return z3.is_int_value(self.s) and (is_f(self.nat) or is_t(self.nat)) and (self.f is None or _is_num(self.f))

    def _cmp(self, o, op):
        o = as_stime(o)
        if o is NotImplemented:
            return o
        ok = mk_and(mk_not(self.nat), mk_not(o.nat))
        if op == "==":
            return SBool(mk_and(ok, _lex("==", self.s, self.f, o.s, o.f)))
        if op == "!=":
            return SBool(mk_or(mk_not(ok), mk_not(_lex("==", self.s, self.f, o.s, o.f))))
        return SBool(mk_and(ok, _lex(op, self.s, self.f, o.s, o.f)))

    def __lt__(self, o):
        return self._cmp(o, "<")

    def __le__(self, o):
        return self._cmp(o, "<=")

    def __gt__(self, o):
        return self._cmp(o, ">")

    def __ge__(self, o):
        return self._cmp(o, ">=")

    def __eq__(self, o):
        return self._cmp(o, "==")

    def __ne__(self, o):
        return self._cmp(o, "!=")

    def __sub__(self, o):
        if isinstance(o, SDelta):
            s, f = _sub_sf(self.s, self.f, o.s, o.f)
            return STime(s, mk_or(self.nat, o.nat), f)
        o2 = as_stime(o)
        if o2 is NotImplemented:
            return o2
        s, f = _sub_sf(self.s, self.f, o2.s, o2.f)
        return SDelta(s, mk_or(self.nat, o2.nat), f)

    def __rsub__(self, o):
        o2 = as_stime(o)
        if o2 is NotImplemented:
            return o2
        s, f = _sub_sf(o2.s, o2.f, self.s, self.f)
        return SDelta(s, mk_or(self.nat, o2.nat), f)

    def __add__(self, o):
        if isinstance(o, SDelta):
            s, f = _add_sf(self.s, self.f, o.s, o.f)
            return STime(s, mk_or(self.nat, o.nat), f)
        return NotImplemented

    __radd__ = __add__

    def __bool__(self):
        # pandas Timestamps are always truthy (used as `if window.starting:`)
        return True

    def __getattr__(self, name):
        import pandas as _rpd
        missing_attr(_rpd.Timestamp, name, "pandas.Timestamp")

    # calendar attributes (pandas Timestamp API)
    def _cal(self, name):
        from . import calendar_model
        return SInt(calendar_model.attr(name, self.s))

    year = property(lambda self: self._cal("year"))
    month = property(lambda self: self._cal("month"))
    day = property(lambda self: self._cal("day"))
    dayofyear = property(lambda self: self._cal("dayofyear"))
    day_of_year = dayofyear
    dayofweek = property(lambda self: self._cal("dayofweek"))
    day_of_week = dayofweek
    weekday = dayofweek
    quarter = property(lambda self: self._cal("quarter"))
    week = property(lambda self: self._cal("week"))
    weekofyear = week
    hour = property(lambda self: self._cal("hour"))


class SDelta(Sym):
    """timedelta64: floor seconds (z3 Int) + optional fraction f in [0,1) + NaT flag; value = s + f."""

    __slots__ = ("nat", "s", "f")

    def __init__(self, s, nat=FALSE, f=None):
        if isinstance(s, int):
            s = z3.IntVal(s)
        self.s = s
        self.nat = nat
        self.f = None if _f0(f) else f

    def _short(self):
        return f"{str(self.s)[:50]}s" + ("" if self.f is None else f"+{str(self.f)[:20]}")

    __hash__ = object.__hash__

    def _cmp(self, o, op):
        if not isinstance(o, SDelta):
            o = as_sdelta(o)
            if o is NotImplemented:
                return o
        ok = mk_and(mk_not(self.nat), mk_not(o.nat))
        if op == "==":
            return SBool(mk_and(ok, _lex("==", self.s, self.f, o.s, o.f)))
        if op == "!=":
            return SBool(mk_or(mk_not(ok), mk_not(_lex("==", self.s, self.f, o.s, o.f))))
        return SBool(mk_and(ok, _lex(op, self.s, self.f, o.s, o.f)))

    def __lt__(self, o):
        return self._cmp(o, "<")

    def __le__(self, o):
        return self._cmp(o, "<=")

    def __gt__(self, o):
        return self._cmp(o, ">")

    def __ge__(self, o):
        return self._cmp(o, ">=")

    def __eq__(self, o):
        return self._cmp(o, "==")

    def __ne__(self, o):
        return self._cmp(o, "!=")

    def __add__(self, o):
        if isinstance(o, SDelta):
            s, f = _add_sf(self.s, self.f, o.s, o.f)
            return SDelta(s, mk_or(self.nat, o.nat), f)
        if isinstance(o, STime):
            return o + self
        return NotImplemented

    def __sub__(self, o):
        if isinstance(o, SDelta):
            s, f = _sub_sf(self.s, self.f, o.s, o.f)
            return SDelta(s, mk_or(self.nat, o.nat), f)
        return NotImplemented

    def __neg__(self):
        s, f = _sub_sf(z3.IntVal(0), None, self.s, self.f)
        return SDelta(s, self.nat, f)

    def __mul__(self, o):
        """timedelta64 * integer (numpy keeps the unit); other factors are outside the model"""
        if isinstance(o, bool):
            o = int(o)
        if isinstance(o, int):
            k = z3.IntVal(o)
        elif isinstance(o, SInt):
            k = o.v
        elif isinstance(o, (float, SFloat, SDelta, STime)):
            raise Unsupported("timedelta64 multiplied by a non-integer")
        else:
            return NotImplemented
        if self.f is None:
            return SDelta(_arith("*", self.s, k), self.nat)
        total = self.f * z3.ToReal(k)
        whole = z3.ToInt(total)
        return SDelta(_arith("*", self.s, k) + whole, self.nat, total - z3.ToReal(whole))

    __rmul__ = __mul__

    def __abs__(self):
        n = -self
        neg = _lex("<", self.s, self.f, z3.IntVal(0), None)
        return SDelta(mk_if(neg, n.s, self.s), self.nat, None if self.f is None else mk_if(neg, n.f if n.f is not None else rv(0), self.f))

    def astype(self, t):
        from . import symnp
        ndt = symnp.dtype(t)
        if ndt.kind == "m":
            # keep the unit with the scalar: a later .astype(float) counts in that unit, not in ns
            return symnp._DeltaScalar(symnp._coarsen(self, ndt), ndt)
        return symnp.cast_scalar(self, ndt, src=symnp.dtype("timedelta64[ns]"))


def as_sdelta(o):
    if isinstance(o, SDelta):
        return o
    if isinstance(o, _dt.timedelta):
        return SDelta(o.days * 86400 + o.seconds, FALSE, rv(Fraction(o.microseconds, 10 ** 6)) if o.microseconds else None)
    tn = type(o).__name__
    if tn == "timedelta64" or tn == "Timedelta":
        import numpy as np
        ns = int(np.timedelta64(o, "ns").astype("int64")) if tn == "timedelta64" else int(o.value)
        return SDelta(ns // 10 ** 9, FALSE, rv(Fraction(ns % 10 ** 9, 10 ** 9)) if ns % 10 ** 9 else None)
    return NotImplemented


def as_stime(o):
    if isinstance(o, STime):
        return o
    tn = type(o).__name__
    if tn == "Timestamp":
        if o.tzinfo is not None:
            o = o.tz_convert(None) if hasattr(o, "tz_convert") else o
        ns = int(o.value)
        return STime(ns // 10 ** 9, FALSE, rv(Fraction(ns % 10 ** 9, 10 ** 9)) if ns % 10 ** 9 else None)
    if tn == "datetime64":
        import numpy as np
        if np.isnat(o):
            return STime(0, TRUE)
        ns = int(o.astype("datetime64[ns]").astype("int64"))
        return STime(ns // 10 ** 9, FALSE, rv(Fraction(ns % 10 ** 9, 10 ** 9)) if ns % 10 ** 9 else None)
    if isinstance(o, _dt.datetime):
        if o.tzinfo is not None:
            o = o.astimezone(_dt.timezone.utc).replace(tzinfo=None)
        d = o - EPOCH
        return STime(d.days * 86400 + d.seconds, FALSE, rv(Fraction(d.microseconds, 10 ** 6)) if d.microseconds else None)
    if isinstance(o, str):
        import pandas as pd
        return as_stime(pd.Timestamp(o))
    return NotImplemented


class MaskedConstant:
    """The numpy.ma.masked singleton."""

    _inst = None

    def __new__(cls):
        if cls._inst is None:
            cls._inst = object.__new__(cls)
        return cls._inst

    def __bool__(self):
        return False

    def __repr__(self):
        return "masked"

    def _m(self, *a):
        return self

    __add__ = __radd__ = __sub__ = __rsub__ = __mul__ = __rmul__ = __truediv__ = __rtruediv__ = _m
    __lt__ = __le__ = __gt__ = __ge__ = _m
    __neg__ = __abs__ = _m
    __hash__ = object.__hash__

    def __eq__(self, o):
        return self

    def __ne__(self, o):
        return self

    def astype(self, t):
        return self

    def any(self):
        return self

    def all(self):
        return self


masked = MaskedConstant()


def is_sym(x):
    return isinstance(x, Sym)
