"""Aggregate job results into evidence/<id>.json and the check's verdict."""
from __future__ import annotations

import json
import os

from . import findings

VERIF = os.path.dirname(os.path.dirname(os.path.abspath(__file__)))


def finish(prop, tier, seed, mod, joblist, results, lemmas, wall, verbose=False):
    lines = []
    viol, inconc, mism, canary_fail = [], [], [], []
    tot = {k: 0 for k in ("paths", "decisions", "merges", "queries", "obligations", "discharged", "witnesses_validated",
                          "witnesses_skipped")}
    solver_time = 0.0
    probes = {"offgrid_probes": 0, "fallback_probes": 0, "cegar_discharged": 0, "cvc5_queries": 0, "cvc5_unsat": 0, "cvc5_unknown": 0,
              "cvc5_sat": 0}
    files = {}
    samples = []
    jobsum = []
    canaries = []
    for r in results:
        for k in tot:
            tot[k] += r.get(k, 0)
        solver_time += r.get("solver_time_s", 0.0)
        for k in probes:
            probes[k] += r.get(k, 0)
        files.update(r.get("files", {}))
        if r.get("canary"):
            ok = bool(r["violations"])
            blind = bool(r["inconclusive"] or r["mismatches"]) and not ok   # the canary could not run (unsupported call / model mismatch)
            canaries.append({"job": r["job"], "refuted_as_expected": ok, "could_not_run": blind})
            if not ok and not blind:
                canary_fail.append(r["job"])
            if blind:
                inconc.append(f"{r['job']}: canary could not run: {(r['inconclusive'] or [str(r['mismatches'][0].get('detail'))])[0][:160]}")
            continue
        for v in r["violations"]:
            viol.append(v)
        for m in r["inconclusive"]:
            inconc.append(f"{r['job']}: {m}")
        for m in r["mismatches"]:
            mism.append({"job": r["job"], **m})
        for s in r["samples"][:1]:
            if len(samples) < 12:
                samples.append({"job": r["job"], **s})
        jobsum.append({"job": r["job"], "paths": r["paths"], "obligations": r["obligations"],
                       "discharged": r["discharged"], "queries": r["queries"], "wall_s": r.get("wall_s"),
                       "violations": len(r["violations"]), "inconclusive": len(r["inconclusive"])})
        if verbose:
            lines.append(f"  job {r['job']}: paths={r['paths']} obl={r['discharged']}/{r['obligations']} "
                         f"wit={r['witnesses_validated']} viol={len(r['violations'])} inc={len(r['inconclusive'])} "
                         f"mis={len(r['mismatches'])} {r.get('wall_s')}s")
    # known findings: replay stored witnesses on the real code
    known_lines = []
    known_ev = []
    for f in findings.open_findings(prop):
        still = None
        w = f.get("witness")
        if w:
            job = findings.find_job(mod, w["job"])
            if job is not None:
                try:
                    out, failed = findings.replay_inputs(job, findings.unpack(w["pickle"]))
                    still = bool(failed)
                except Exception as e:
                    still = None
        known_ev.append({"id": f["id"], "what": f["what"], "witness_still_fails": still})
        if still is not False:
            known_lines.append(f"KNOWN-FINDING: property={prop} {f['id']}: {f['what']}")
    # violations that match an open finding's recorded inputs are not new (exclusion is done by predicate in
    # the jobs; this is a second line of defence for witness-found violations)
    lemma_fail = [l for l in lemmas if not l.get("ok")]
    level = getattr(mod, "LEVEL", "model_checking")
    harness_problem = bool(canary_fail or lemma_fail)
    ev = {
        "property_id": prop, "tier": tier, "seed": seed, "level": level,
        "coverage": {
            "states": max(tot["paths"], 0), "transitions": tot["decisions"] + tot["merges"],
            "branch_decisions_forked": tot["decisions"], "state_merged_branches": tot["merges"],
            "traces_validated_against_impl": tot["witnesses_validated"],
            "samples": samples or [{"note": "no path produced a sample"}],
            "obligations": tot["obligations"], "discharged": tot["discharged"],
            "solver_queries": tot["queries"], "solver_time_s": round(solver_time, 3),
            "jobs": len(jobsum), "job_summaries": jobsum,
            "functions_encoded": getattr(mod, "FUNCTIONS", []),
            "source_sha256": files,
            "bounds": mod.bounds(tier) if hasattr(mod, "bounds") else {},
            "outside_claim": getattr(mod, "OUTSIDE", []),
            "lemmas": lemmas, "canaries": canaries,
            "witnesses_skipped_offgrid": tot["witnesses_skipped"],
            "real_code_probes_off_the_grid": probes["offgrid_probes"], "real_code_fallback_probes": probes["fallback_probes"],
            "obligations_discharged_only_on_the_position_menu_or_margin": probes["cegar_discharged"],
            "second_solver": {"solver": "cvc5 1.4 (python wheel)", "obligations_rechecked": probes["cvc5_queries"],
                              "agree_unsat": probes["cvc5_unsat"], "timeout_or_unknown": probes["cvc5_unknown"],
                              "disagree": probes["cvc5_sat"], "note": "thorough tier only: up to 40 discharged obligations per job"},
            "inconclusive": inconc, "model_mismatches": mism[:20],
            "known_findings": known_ev,
            "exhaustive": False,
            "explanation": "states = execution paths of the real source explored symbolically; transitions = branch "
                           "decisions taken by the path explorer plus data-dependent branches kept state-merged as If-terms "
                           "(conditional stores of the vectorised code); every obligation is the negated property on one path, discharged by z3 (unsat) "
                           "for all inputs within the bounds; traces_validated = solver-chosen path witnesses executed "
                           "on the real numpy/pandas stack and compared with the symbolic result",
        },
        "assumptions": getattr(mod, "ASSUMPTIONS", []),
        "wall_s": round(wall, 2),
        "violations": len(viol),
    }
    evdir = os.environ.get("VERIF_EVIDENCE_DIR") or os.path.join(VERIF, "evidence")
    os.makedirs(evdir, exist_ok=True)
    with open(os.path.join(evdir, f"{prop}.json"), "w") as f:
        json.dump(ev, f, indent=1, default=str)
    lines += known_lines
    seen = set()
    for v in viol:
        key = v.get("replay")
        if key in seen:
            continue
        seen.add(key)
        if len(seen) > 12:
            continue
        lines.append(f"VIOLATION property={prop} replay={v.get('replay')}")
        lines.append(f"  job={v['job']} violated='{v['violated']}' inputs={json.dumps(v['inputs'])[:400]} "
                     f"real={json.dumps(v['real_outcome'])[:200]}")
    for m in inconc[:30]:
        lines.append(f"INCONCLUSIVE property={prop} {m[:300]}")
    for m in mism[:10]:
        lines.append(f"MODEL-MISMATCH property={prop} job={m['job']} {str(m.get('detail'))[:200]} inputs={json.dumps(m.get('inputs'))[:300]}")
    for c in canary_fail:
        lines.append(f"HARNESS-ERROR property={prop} canary not refuted: {c}")
    for l in lemma_fail:
        lines.append(f"HARNESS-ERROR property={prop} lemma failed: {l.get('name')}")
    lines.append(f"SUMMARY property={prop} tier={tier} jobs={len(jobsum)} paths={tot['paths']} "
                 f"obligations={tot['discharged']}/{tot['obligations']} witnesses={tot['witnesses_validated']} "
                 f"queries={tot['queries']} solver_s={round(solver_time, 1)} wall_s={round(wall, 1)} "
                 f"violations={len(viol)} inconclusive={len(inconc)} mismatches={len(mism)}")
    if viol:
        return 1, lines
    strict = os.environ.get("VERIF_STRICT") == "1"
    if strict and (inconc or mism or harness_problem):
        return 2, lines
    if harness_problem:
        return 2, lines
    return 0, lines
