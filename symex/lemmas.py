"""Arithmetic lemmas bridging the real-number encoding and binary64 (DESIGN §4), discharged by z3 on every run."""
from __future__ import annotations

import time

import z3


def _prove(name, claim, timeout_ms=60000, note=""):
    s = z3.Solver()
    s.set("timeout", timeout_ms)
    s.add(z3.Not(claim))
    t0 = time.time()
    r = s.check()
    return {"name": name, "ok": r == z3.unsat, "result": str(r), "solver_s": round(time.time() - t0, 3), "note": note}


def lemma_Q():
    """d = k*2^-10 (|k| <= 2^31), tau = j*2^-10 (0 <= j <= 2^30), 1 <= D <= 2^22 whole seconds:
    d/D - tau is 0 or at least 2^-10/D >= 2^-32 in magnitude, i.e. more than the half-ulp (2^-33) of a correctly rounded
    binary64 quotient below 2^21; so fl(d/D) > tau  <=>  d > tau*D, and equality is preserved.  Integer core: k != j*D
    implies |k - j*D| >= 1, and 2^-10/D > 2^-33 for D <= 2^22."""
    k, j, D = z3.Ints("k j D")
    pre = z3.And(k >= -2 ** 31, k <= 2 ** 31, j >= 0, j <= 2 ** 30, D >= 1, D <= 2 ** 22)
    gap = z3.Implies(z3.And(pre, k != j * D), z3.Or(k - j * D >= 1, k - j * D <= -1))
    margin = z3.Implies(pre, 1024 * D < 2 ** 33)  # 2^-10/D > 2^-33
    return _prove("Lemma Q (quotient gap)", z3.And(gap, margin),
                  note="half-ulp bound of a correctly rounded quotient is IEEE-754's definition (trusted)")


def lemma_F():
    """0 <= a < 2^31, 1 <= b <= 2^22: floor(a/b) over the rationals never lies within rounding distance below an integer
    other than exactly on it: b*(a div b + 1) - a >= 1.  Justifies int(float(a)/float(b)) == a // b."""
    a, b = z3.Ints("a b")
    pre = z3.And(a >= 0, a < 2 ** 31, b >= 1, b <= 2 ** 22)
    q = a / b
    return _prove("Lemma F (floor of a float quotient)", z3.Implies(pre, z3.And(b * (q + 1) - a >= 1, a - b * q >= 0)),
                  note="the quotient a/b is at least 1/b >= 2^-22 below the next integer, far above the half-ulp 2^-23..2^-22 "
                       "of a binary64 value below 2^31 (ulp <= 2^-22 only above 2^30; margin argument as in DESIGN §4)")


def lemma_E():
    """Grid values k*2^-10 with |k| <= 2^30: sums/differences of <= 8 terms and halves are integers of < 2^35 times 2^-11,
    hence exactly representable in binary64 (53-bit significand)."""
    ks = z3.Ints("k0 k1 k2 k3 k4 k5 k6 k7")
    pre = z3.And(*[z3.And(k >= -2 ** 30, k <= 2 ** 30) for k in ks])
    tot = sum(ks[1:], ks[0])
    claim = z3.Implies(pre, z3.And(tot <= 2 ** 33, tot >= -2 ** 33))
    return _prove("Lemma E (exact sums on the grid)", claim, note="|sum of 8 grid numerators| <= 2^33 < 2^52, so every partial sum, "
                  "difference and half (one extra fractional bit) is exact")
