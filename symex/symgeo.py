"""geographiclib model: WGS-84 inverse geodesic distance as an uninterpreted function (DESIGN §3.3)."""
from __future__ import annotations

import types

import z3

from . import explorer as _ex
from .values import SFloat, as_sfloat, mk_and, mk_eq, mk_or, rv

GEOD = z3.Function("geod", z3.RealSort(), z3.RealSort(), z3.RealSort(), z3.RealSort(), z3.RealSort())


def geod_axioms(calls):
    """Contract instances for the given list of argument tuples (z3 Reals)."""
    out = []
    for (a, b, c, d) in calls:
        g = GEOD(a, b, c, d)
        out.append(g >= 0)
        out.append(g <= 20100000)  # half the WGS-84 meridional circumference, rounded up
        out.append(z3.Implies(z3.And(a == c, b == d), g == 0))
        out.append(z3.Implies(g == 0, z3.And(a == c, z3.Or(b == d, a == 90, a == -90, b - d == 360, d - b == 360))))
        out.append(g == GEOD(c, d, a, b))  # symmetry
    return out


class _WGS84:
    def Inverse(self, lat1, lon1, lat2, lon2, outmask=None):
        xs = [as_sfloat(v) for v in (lat1, lon1, lat2, lon2)]
        if any(x is NotImplemented for x in xs):
            raise TypeError("geodesic arguments must be numbers")
        nanf = mk_or(*[x.nan for x in xs])
        args = tuple(x.v for x in xs)
        ex = _ex.current()
        ex.event("geod", args)
        return {"s12": SFloat(nanf, GEOD(*args))}


class Geodesic:
    WGS84 = _WGS84()


def module_for(name, fromlist):
    geodesic = types.SimpleNamespace(Geodesic=Geodesic)
    if name == "geographiclib.geodesic":
        return geodesic if fromlist else types.SimpleNamespace(geodesic=geodesic)
    return types.SimpleNamespace(geodesic=geodesic)
