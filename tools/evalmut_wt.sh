#!/bin/sh
# tools/evalmut_wt.sh <name> <patch.diff> [props...]: evaluate a seeded change in its own scratch worktree (does not touch /repo)
N=$1; P=$2; shift; shift
WT=/tmp/wt_eval_$N
rm -rf $WT; git -C /repo worktree add -q $WT HEAD || exit 2
( cd $WT && git apply $P ) || { echo "$N: patch does not apply"; git -C /repo worktree remove --force $WT; exit 2; }
PROPS=${*:-$(python3 -c "import json; print(' '.join(c['property_id'] for c in json.load(open('/verif/MANIFEST.json'))['checks']))")}
DET=""
mkdir -p /tmp/evalwt_$N
for p in $PROPS; do
  # a private copy of the evidence dir would be nicer; the check rewrites evidence/<id>.json, restored by the caller with git checkout
  VERIF_EVIDENCE_DIR=/tmp/evalwt_$N/evidence IOOS_QC_REPO=$WT /verif/.venv/bin/python /verif/check.py $p --tier ${TIER:-quick} --jobs ${JOBS:-6} > /tmp/evalwt_$N/$p.log 2>&1; rc=$?
  [ $rc -eq 1 ] && DET="$DET $p"
  inc=$(grep -c "^INCONCLUSIVE\|^MODEL-MISMATCH" /tmp/evalwt_$N/$p.log)
  [ $rc -ne 0 -o $inc -ne 0 ] && echo "  $p rc=$rc inconclusive/mismatch=$inc"
done
git -C /repo worktree remove --force $WT
echo "$N DETECTED_BY:$DET"
