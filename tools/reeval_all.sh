#!/bin/sh
# re-run every seeded change against the checks recorded in its meta.json (plus its own property); prints a table
cd /verif
for d in $(ls -d seeded/*/ | grep -v "/_"); do
  id=$(basename $d)
  props=$(python3 -c "import json; m=json.load(open('$d/meta.json')); print(' '.join(sorted(set(m['detected_by']+[m['property']]))))")
  r=$(tools/evalmut.sh /verif/$d/patch.diff $props 2>&1 | tail -1)
  echo "$id [$props] $r"
done
