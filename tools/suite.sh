#!/bin/sh
# Run the repo's baseline suite (guard off: there are no hooks) and compare with BASELINE.json stable_pass.
cd /repo && /venv/bin/python -m pytest -q -p no:cacheprovider --timeout=900 --continue-on-collection-errors -n 8 --junitxml=/tmp/suite.xml >/tmp/suite.log 2>&1
python3 - <<'PY'
import json, xml.etree.ElementTree as ET
base=set(json.load(open('/root/.vp/BASELINE.json'))['stable_pass'])
passed=set()
for tc in ET.parse('/tmp/suite.xml').getroot().iter('testcase'):
    if not any(c.tag in ('failure','error','skipped') for c in tc):
        passed.add(f"{tc.get('classname')}::{tc.get('name')}")
missing=sorted(base-passed)
print("baseline", len(base), "passed-now", len(passed), "baseline tests not passing:", missing)
PY
