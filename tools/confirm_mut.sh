#!/bin/sh
# tools/confirm_mut.sh <PROP> <mK> "<detected-by>"  -- confirm a seeded change in a scratch worktree and store it under /verif/seeded/
P=$1; M=$2; DET=$3; PROP=${4:-$1}
SRC=/tmp/mut_$P/$M
WT=/tmp/wt_confirm_$P$M
ID=${P}_$M
rm -rf $WT; git -C /repo worktree add -q $WT HEAD || exit 2
cd $WT
clean_demo=$( /venv/bin/python $SRC/demo.py >/dev/null 2>&1; echo $? )
git apply $SRC/patch.diff || { echo "$ID: patch does not apply"; git -C /repo worktree remove --force $WT; exit 2; }
mut_demo=$( /venv/bin/python $SRC/demo.py >/dev/null 2>&1; echo $? )
/venv/bin/python -m pytest -q -p no:cacheprovider --timeout=900 --continue-on-collection-errors -n 4 --junitxml=/tmp/confirm_$ID.xml tests >/dev/null 2>&1
suite=$(python3 - <<PY
import json, xml.etree.ElementTree as ET
base=set(json.load(open('/root/.vp/BASELINE.json'))['stable_pass'])
passed=set()
for tc in ET.parse('/tmp/confirm_$ID.xml').getroot().iter('testcase'):
    if not any(c.tag in ('failure','error','skipped') for c in tc):
        passed.add(f"{tc.get('classname')}::{tc.get('name')}")
print(len(base & passed), len(base))
PY
)
cd /; git -C /repo worktree remove --force $WT
mkdir -p /verif/seeded/$ID
cp $SRC/patch.diff $SRC/demo.py /verif/seeded/$ID/
cp $SRC/notes.md /verif/seeded/$ID/notes.md 2>/dev/null
python3 - <<PY
import json
meta={"id":"$ID","property":"$PROP","source":"independent sub-agent given only the property text and a scratch worktree",
 "base_commit":"$(git -C /repo log --format=%h -1)",
 "needs_to_manifest": open("$SRC/notes.md").read()[:1500],
 "confirmed":{"demo_exit_clean":$clean_demo,"demo_exit_mutated":$mut_demo,"baseline_tests_passing_with_change":"$suite"},
 "ran":["git worktree add; demo.py on clean tree; git apply patch.diff; demo.py; pytest tests (baseline comparison); tools/evalmut.sh patch.diff"],
 "detected_by":"$DET".split()}
json.dump(meta,open("/verif/seeded/$ID/meta.json","w"),indent=1)
print("$ID", meta["confirmed"], meta["detected_by"])
PY
