#!/bin/sh
# tools/evalmut.sh <patch.diff> [props...]  -- apply a seeded change to /repo, run the quick checks, undo it.
P=$1; shift
cd /repo || exit 2
if [ -n "$(git status --porcelain)" ]; then echo "/repo not clean"; exit 2; fi
git apply "$P" || { echo "patch does not apply"; exit 2; }
PROPS=${*:-$(python3 -c "import json; print(' '.join(c['property_id'] for c in json.load(open('/verif/MANIFEST.json'))['checks']))")}
cd /verif
DET=""
for p in $PROPS; do
  bin/check $p --tier ${TIER:-quick} > /tmp/evalmut_$p.log 2>&1; rc=$?
  v=$(grep -c "^VIOLATION" /tmp/evalmut_$p.log)
  inc=$(grep -c "^INCONCLUSIVE\|^MODEL-MISMATCH" /tmp/evalmut_$p.log)
  if [ $rc -eq 1 ]; then DET="$DET $p"; fi
  echo "  $p rc=$rc violations=$v inconclusive/mismatch=$inc"
done
git -C /repo checkout -- .
echo "DETECTED_BY:$DET"
