#!/bin/sh
# run every claimed check (tier $1, default quick) and print summaries
T=${1:-quick}
cd /verif
for p in $(python3 -c "import json; print(' '.join(c['property_id'] for c in json.load(open('MANIFEST.json'))['checks']))"); do
  bin/check $p --tier $T > /tmp/runall_$p.log 2>&1; rc=$?
  echo "rc=$rc $(grep SUMMARY /tmp/runall_$p.log | cut -c1-260)"
  grep -c "^VIOLATION\|^INCONCLUSIVE\|^MODEL-MISMATCH\|^HARNESS" /tmp/runall_$p.log | sed 's/^/   alarms: /' | grep -v "alarms: 0"
done
