#!/usr/bin/env python3
"""Regenerate MANIFEST.json from the props modules that exist (run with the overlay interpreter)."""
import importlib
import json
import os
import sys

HERE = os.path.dirname(os.path.dirname(os.path.abspath(__file__)))
sys.path.insert(0, HERE)
props = [json.loads(l) for l in open(os.path.join(HERE, "properties.jsonl"))]
NA_REASON = json.load(open(os.path.join(HERE, "tools", "not_applicable.json")))
checks, na = [], []
for p in props:
    pid = p["id"]
    path = os.path.join(HERE, "props", pid.lower() + ".py")
    mod = None
    if os.path.exists(path) and pid not in NA_REASON.get("_force", []):
        mod = importlib.import_module(f"props.{pid.lower()}")
        if not getattr(mod, "CLAIMED", True):
            mod = None
    if mod is None:
        na.append({"property_id": pid, "reason": NA_REASON.get(pid, "check not built yet")})
        continue
    checks.append({
        "property_id": pid,
        "quick_cmd": f"bin/check {pid} --tier quick",
        "thorough_cmd": f"bin/check {pid} --tier thorough",
        "evidence_file": f"evidence/{pid}.json",
        "replay_cmd_template": "bin/replay {path}",
        "engine": "symex",
        "level_claimed": {"category": getattr(mod, "LEVEL", "model_checking"), "text": mod.LEVEL_TEXT,
                          "design_ref": f"DESIGN.md §7 {pid}"},
        "level_note": mod.LEVEL_NOTE,
        "technique": mod.TECHNIQUE,
    })
m = {
    "version": 1,
    "setup_cmd": "bin/setup",
    "hooks": {"guard": "IOOS_QC_VERIF",
              "enable": "no source hooks are needed: the checks execute /repo's working-tree source directly under a symbolic environment model",
              "baseline_off_cmd": "cd /repo && /venv/bin/python -m pytest -ra -q -p no:cacheprovider --timeout=900 --continue-on-collection-errors",
              "source_commits": [], "add_only": True},
    "engines": [{"name": "symex", "path": "symex/", "serves_properties": [c["property_id"] for c in checks],
                 "kind_free_text": "path-exploring symbolic executor for the real ioos_qc Python source over a symbolic model of numpy/pandas/xarray; z3 decides every obligation; counterexamples replayed on the real stack"}],
    "checks": checks,
    "notes": "see DESIGN.md; known findings in known_findings.json",
    "not_applicable": na,
}
json.dump(m, open(os.path.join(HERE, "MANIFEST.json"), "w"), indent=1)
print("claimed:", [c["property_id"] for c in checks])
