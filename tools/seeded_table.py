#!/usr/bin/env python3
import json, glob, os
rows=[]
for d in sorted(glob.glob("/verif/seeded/*/meta.json")):
    m=json.load(open(d))
    notes=m.get("needs_to_manifest","").strip().splitlines()
    first=next((l.strip("# -*").strip() for l in notes if len(l.strip())>25), "")
    rows.append((m["id"], m["property"], first[:160].replace("|","/"), ", ".join(m["detected_by"]) or "— (missed)", m.get("note","")))
print("| seeded change | aimed at | what it does (from the author's notes) | caught by (quick tier, exit 1 + replayed VIOLATION) |")
print("|---|---|---|---|")
for r in rows:
    print(f"| `seeded/{r[0]}` | {r[1]} | {r[2]} | {r[3]}{' — ' + r[4] if r[4] else ''} |")
