#!/usr/bin/env python3
"""tools/addfinding.py fixed <ID> <props,comma> <commit> <what>   |   open <ID> <props> <what> [replay.json]"""
import json, sys
p = '/verif/known_findings.json'
k = json.load(open(p))
kind, fid, props, *rest = sys.argv[1:]
props = props.split(',')
k['findings'] = [f for f in k['findings'] if f['id'] != fid]
if kind == 'fixed':
    commit, what = rest
    k['findings'].append({"id": fid, "status": "fixed", "property": props[0], "properties": props, "commit": commit, "what": what,
                          "record": f"fixed: property={props[0]} {commit} {what}"})
else:
    what = rest[0]
    e = {"id": fid, "status": "open", "property": props[0], "properties": props, "what": what}
    if len(rest) > 1:
        c = json.load(open(rest[1]))
        e["witness"] = {"job": c["job"], "inputs": c["inputs"], "pickle": c["pickle"], "real_outcome": c["real_outcome"], "violated": c["violated"]}
    k['findings'].append(e)
json.dump(k, open(p, 'w'), indent=1)
