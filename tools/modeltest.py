#!/usr/bin/env python
"""Differential self-test of the NumPy/pandas environment model on concrete vectors: each snippet is evaluated with the real
library and with the model (constant symbolic terms) and the results are compared."""
import math
import os
import sys
import warnings

HERE = os.path.dirname(os.path.dirname(os.path.abspath(__file__)))
sys.path.insert(0, HERE)
import numpy as rnp
import pandas as rpd
import z3
from symex import explorer, symnp as snp, sympd as spd
from symex.values import SBool, SDelta, SFloat, SInt, STime, MaskedConstant, _numval
warnings.simplefilter("ignore")

nan = float("nan")


def conc(x):
    """model value -> comparable python structure"""
    if isinstance(x, snp.ndarray):
        d = [conc(v) for v in x.a.flat]
        if x._is_masked and x._mask is not None:
            m = [conc(v) for v in x._mask.a.flat]
            d = [("masked" if mm else v) for v, mm in zip(d, m)]
        return (tuple(x.a.shape), d)
    if isinstance(x, (spd.Series,)):
        return conc(x.values_arr())
    if isinstance(x, spd.Index):
        return conc(x.arr)
    if isinstance(x, snp.LazyIdx):
        return conc(snp.asarray(rnp.array([i + x.shift for i, c in enumerate(x.cond.a.flat) if z3.is_true(z3.simplify(c.b))], dtype="int64")))
    if isinstance(x, SFloat):
        if z3.is_true(z3.simplify(x.nan)):
            return "nan"
        if x.root2 is not None:
            return math.sqrt(float(_numval(z3.simplify(x.root2))))
        return float(_numval(z3.simplify(x.v)))
    if isinstance(x, SInt):
        return float(z3.simplify(x.v).as_long())
    if isinstance(x, SBool):
        return bool(z3.is_true(z3.simplify(x.b)))
    if isinstance(x, (STime, SDelta)):
        if z3.is_true(z3.simplify(x.nat)):
            return "nat"
        f = 0 if x.f is None else float(_numval(z3.simplify(x.f)))
        return float(z3.simplify(x.s).as_long()) + f
    if isinstance(x, MaskedConstant):
        return "masked"
    if isinstance(x, tuple):
        return tuple(conc(v) for v in x)
    if isinstance(x, (int, float, bool)):
        return float(x) if not isinstance(x, bool) else x
    return x


def real(x):
    if isinstance(x, (rpd.Series, rpd.Index)):
        x = x.to_numpy()
    if isinstance(x, rnp.ndarray):
        d = rnp.ma.getdata(x)
        m = rnp.ma.getmaskarray(x)
        out = []
        for v, mm in zip(d.flat, m.flat):
            out.append("masked" if (mm and isinstance(x, rnp.ma.MaskedArray)) else real(v))
        return (tuple(x.shape), out)
    if x is rnp.ma.masked:
        return "masked"
    if isinstance(x, (rnp.datetime64, rnp.timedelta64)):
        if rnp.isnat(x):
            return "nat"
        return float(x.astype(x.dtype.name.split("[")[0] + "[ns]").astype("int64")) / 1e9
    if isinstance(x, (rnp.bool_, bool)):
        return bool(x)
    if isinstance(x, (float, rnp.floating)):
        return "nan" if math.isnan(x) else float(x)
    if isinstance(x, (int, rnp.integer)):
        return float(x)
    if isinstance(x, tuple):
        return tuple(real(v) for v in x)
    return x


def close(a, b):
    if isinstance(a, tuple) and isinstance(b, tuple) and len(a) == len(b):
        return all(close(x, y) for x, y in zip(a, b))
    if isinstance(a, list) and isinstance(b, list) and len(a) == len(b):
        return all(close(x, y) for x, y in zip(a, b))
    if isinstance(a, float) and isinstance(b, float):
        return abs(a - b) <= 1e-9 * (1 + abs(a))
    return a == b


A = [1.0, nan, 3.5, -2.0, 3.5]
B = [0.5, 2.0, nan, -2.0, 4.0]
M = [False, True, False, False, True]
T = ["2020-01-01T00:00:00", "2020-01-01T00:00:10", "2020-01-03T00:00:10", "2020-12-31T00:00:00", "2021-01-03T12:00:00"]


def env(np, pd):
    ma = np.ma
    a, b = np.array(A), np.array(B)
    am = ma.masked_invalid(np.array(A))
    bm = ma.array(np.array(B), mask=np.array(M))
    t = np.array(T, dtype="datetime64[ns]")
    return dict(np=np, pd=pd, ma=ma, a=a, b=b, am=am, bm=bm, t=t, ti=pd.DatetimeIndex(t))


SNIPPETS = [
    "a + b", "a - b * 2", "a / np.array([1.0, 2.0, 4.0, 0.5, 2.0])", "np.abs(a)", "np.sign(a)", "a < b", "a >= 3.5", "np.isnan(a)",
    "am + bm", "am - bm", "am * 2", "am / bm", "am < bm", "am == bm", "am != 3.5", "np.abs(am - bm)", "np.diff(am)", "np.diff(a)",
    "ma.diff(bm)", "np.minimum(am, bm)", "np.maximum(a, b)", "(am < 2) | (bm > 1)", "~(am < 2)", "am.mask & bm.mask", "am.mask != bm.mask",
    "ma.filled(am < 2, False)", "am.count()", "bm.count()", "np.where(a > 0, 1, 0)", "ma.where(am > 0, 1, 9)", "np.where(a > 0)[0] + 0",
    "ma.masked_where(a > 1, b)", "ma.masked_less(b, 1.0)", "ma.masked_greater_equal(b, 2.0)", "ma.masked_outside(b, 0, 2.5)",
    "np.searchsorted(np.array([1.0, 2.0, 3.0, 5.0]), 3.0)", "np.searchsorted(np.array([1.0, 2.0, 3.0, 5.0]), 3.0, side='right')",
    "np.searchsorted(np.array([5.0, 1.0, 4.0, 2.0]), 3.0)", "np.cumsum(np.array([1.0, 2.0, 3.0]))", "np.count_nonzero(a > 0)",
    "np.isclose(a, b)", "np.isclose(np.array([170.0, 1.0]), np.array([170.0009765625, 1.0009765625]))", "np.nansum(a)", "np.nanmean(a)",
    "np.nanmin(a)", "np.nanmax(b)", "np.roll(a, 1)", "np.floor(b)", "np.ceil(b)", "np.sort(np.array([3.0, 1.0, 2.0]))",
    "np.fmax(a, b)", "np.fmin(a, b)", "np.nan_to_num(a, nan=7.0)", "np.digitize(np.array([0.5, 1.0, 2.5, 9.0]), np.array([1.0, 2.0, 3.0]))",
    "np.digitize(np.array([0.5, 1.0, 2.5, 9.0]), np.array([1.0, 2.0, 3.0]), right=True)",
    "np.digitize(np.array([0.5, 1.0, 2.5, 9.0]), np.array([3.0, 2.0, 1.0]), right=True)",
    "np.select([a > 3, a > 0], [4, 3], default=1)", "np.maximum.accumulate(np.array([1.0, 3.0, 2.0, 5.0]))", "np.argmax(np.array([1.0, 3.0, 2.0]))",
    "np.lib.stride_tricks.sliding_window_view(np.array([1.0, 2.0, 3.0, 4.0]), 2)", "np.median(np.array([3.0, 1.0, 2.0, 10.0]))",
    "np.mean(a[[0, 2]])", "np.ptp(np.array([3.0, 1.0, 2.0]))", "np.std(ma.masked_invalid(a))", "np.ptp(ma.masked_invalid(a))",
    "np.min(ma.masked_invalid(np.array([[1.0, np.nan], [np.nan, np.nan], [2.0, 5.0]])), 1)", "ma.masked_invalid(a).count(axis=0) if False else am.count()",
    "np.insert(np.array([True, False]), 0, np.full((2,), False))", "np.full((3,), 2)[np.array([True, False, True])]",
    "np.diff(t).astype('timedelta64[s]').astype(float)", "np.median(np.diff(t)).astype('timedelta64[s]').astype(float)",
    "ti >= pd.Timestamp('2020-01-02')", "ti.month", "ti.dayofyear", "ti.isocalendar().week", "ti.quarter", "ti.dayofweek", "ti.year",
    "pd.to_timedelta(np.diff(t)).seconds", "pd.to_timedelta(np.diff(t)).days", "pd.to_timedelta(np.diff(t)).total_seconds()",
    "pd.Series(a).diff()", "pd.Series(a).shift(1)", "pd.Series(a).fillna(0.0)", "pd.Series(a).isna()", "pd.Series(a) > 1",
    "(pd.Series(a) > 1) & (am > 0)", "pd.Series(t).diff().dt.total_seconds()", "ma.allequal(am, bm)", "ma.copy(am)",
    "pd.to_datetime(np.array([0.0, 86400.5]), unit='s')", "np.array([0.0, 86400.5]).astype('datetime64[s]')",
    "(t[1] - t[0]).astype('timedelta64[s]').astype(float)", "np.abs(np.diff(a) / (t[1] - t[0]).astype('timedelta64[s]').astype(float))",
    "t[-1] - t[0] == (t[1] - t[0]) * 4", "np.diff(t).astype('timedelta64[s]')[2].astype(float)", "(t[2] - t[0]) * 3 > (t[4] - t[0])",
    "(lambda x: (np.abs(x, out=x), x)[1])(np.array([-1.0, 2.0, -3.0]))",
    "(lambda x, e: (np.divide(x[1:], e, out=x[1:], where=e != 0), x)[1])(np.array([8.0, 6.0, 4.0, 9.0]), np.array([2.0, 0.0, 3.0]))",
    "(lambda x: (np.add(x, 1, x), x)[1])(np.array([1.0, 2.0]))", "np.multiply(a, b, dtype=None)",
    "np.round(np.array([0.5, 1.5, 2.5, -0.5, -1.5, 2.4, 2.6, np.nan]))", "np.round(np.array([1.0004, 0.2496, 1.0005, -2.0015, 7.0]), 3)",
    "np.around(np.array([12.345, 12.355]), 1)", "np.rint(np.array([0.5, 1.5, -2.5, 3.2]))", "np.round(am, 1)",
    "ma.getmaskarray(ma.empty_like(bm, dtype='uint8'))", "ma.getmaskarray(np.empty_like(bm))", "np.full_like(bm, 7.0)",
    "(lambda r: (r.fill(9), r)[1])(ma.empty_like(bm, dtype='uint8'))", "ma.getmaskarray(ma.empty_like(a))",
    "np.copy(bm)", "ma.getmaskarray(np.copy(bm))", "ma.copy(bm)",
    "np.extract(a > 1, a)", "np.extract(~np.isnan(a), b)", "ma.true_divide(np.array([1.0, 2.0, 3.0]), np.array([2.0, 0.0, 4.0]))",
    "ma.true_divide(am, bm)", "ma.divide(ma.masked_invalid(a), 2.0)", "np.zeros(3, dtype=np.intp)",
    "(lambda x: (x.__setitem__(np.where(a > 1)[0], np.array([7.0, 8.0])), x)[1])(np.zeros(5))",
    "np.array([5, 4, 3], dtype='uint8') - np.array([6, 1, 3], dtype='uint8')", "np.diff(np.array([100, 90, 100], dtype='uint16'))",
    "np.array([100, 100], dtype='int8') + np.array([100, -100], dtype='int8')", "np.array([100, 90], dtype='uint16') * 2",
    "np.array([7, 2], dtype='int64') - np.array([9, 1], dtype='int64')",
    "np.median(np.diff(np.array(['2020-01-01T00:00', '2020-01-01T00:01', '2020-01-01T00:03'], dtype='datetime64[m]'))).astype('timedelta64[s]').astype(float)",
    "np.median(np.diff(np.array(['2020-01-01T00:00:00', '2020-01-01T00:00:01', '2020-01-01T00:00:03'], dtype='datetime64[s]'))).astype('timedelta64[s]').astype(float)",
    "np.median(np.diff(np.array(['2020-01-01T00:00:00', '2020-01-01T00:00:01', '2020-01-01T00:00:03'], dtype='datetime64[ns]'))).astype('timedelta64[s]').astype(float)",
    "np.datetime_data(np.dtype('datetime64[m]'))[0] == 'm'",
    "np.ravel(np.array([[1.0, 2.0], [3.0, 4.0]]))", "np.union1d(np.flatnonzero(a > 1), np.flatnonzero(b > 1))",
    "np.union1d(np.array([3, 1]), np.array([2, 1]))", "(lambda x: (np.put(x, np.array([2, 0]), np.array([7.0, 8.0])), x)[1])(np.zeros(4))",
    "(lambda x: (np.put(x, [1, 3, 0], [5]), x)[1])(np.full((4,), 2, dtype='uint8'))",
    "np.array(t, dtype='datetime64[s]') + np.timedelta64(5, 's')" if False else "t.astype('datetime64[s]')",
]


def main():
    ex = explorer.Explorer()
    bad = 0
    explorer._CUR.append(ex)
    ex._path = explorer.Path()
    ex._memo = {}
    try:
        for src in SNIPPETS:
            try:
                r = real(eval(src, env(rnp, rpd)))
            except Exception as e:
                r = ("raises", type(e).__name__)
            try:
                m = conc(eval(src, env(snp, spd)))
            except Exception as e:
                m = ("raises", type(e).__name__)
            if not close(r, m):
                bad += 1
                print(f"MISMATCH {src}\n   real : {r}\n   model: {m}")
    finally:
        explorer._CUR.pop()
    print(f"model self-test: {len(SNIPPETS)} snippets, {bad} mismatches")
    return 1 if bad else 0


if __name__ == "__main__":
    sys.exit(main())
