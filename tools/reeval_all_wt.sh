#!/bin/sh
# re-run every seeded change (in scratch worktrees, 5 at a time) against the checks recorded in its meta.json plus its own property
cd /verif
ls -d seeded/*/ | grep -v "/_" | xargs -P 5 -I{} sh -c '
  d={}; id=$(basename $d)
  props=$(python3 -c "import json; m=json.load(open(\"$d/meta.json\")); print(\" \".join(sorted(set(m[\"detected_by\"]+[m[\"property\"]]))))")
  r=$(JOBS=3 tools/evalmut_wt.sh $id /verif/$d/patch.diff $props 2>&1 | tail -1)
  rm -rf /tmp/evalwt_$id
  echo "$id [$props] $r"
'
