#!/usr/bin/env python
"""Replay a recorded counterexample against the real ioos_qc code: replay.py <case.json>; exit 1 if it still violates."""
import importlib
import json
import os
import sys

HERE = os.path.dirname(os.path.abspath(__file__))
sys.path.insert(0, HERE)
if os.environ.get("IOOS_QC_REPO"):
    sys.path.insert(0, os.environ["IOOS_QC_REPO"])


def main():
    import logging
    import warnings
    warnings.simplefilter("ignore")
    logging.disable(logging.CRITICAL)
    case = json.load(open(sys.argv[1]))
    from symex import findings
    mod = importlib.import_module(f"props.{case['property'].lower()}")
    job = findings.find_job(mod, case["job"])
    if job is None:
        print(f"job {case['job']!r} not found")
        return 2
    Sc = findings.unpack(case["pickle"])
    out, failed = findings.replay_inputs(job, Sc)
    print("inputs :", json.dumps(case["inputs"]))
    print("outcome:", json.dumps(out.describe()))
    if failed:
        print("VIOLATED:", "; ".join(failed))
        return 1
    print("property holds on this input")
    return 0


if __name__ == "__main__":
    sys.exit(main())
