#!/usr/bin/env python
"""Entry point: decide one property by bounded symbolic execution of /repo's current source.

usage: check.py <ID> [--tier quick|thorough] [--jobs N] [--only SUBSTR] [-v]
exit 0: every obligation discharged within the stated bounds (only listed known findings excepted)
exit 1: a counterexample was found AND reproduced on the real code (VIOLATION line printed)
exit 2: harness error (only with VERIF_STRICT=1; otherwise inconclusive jobs are reported and do not fail the check)
"""
from __future__ import annotations

import argparse
import importlib
import json
import multiprocessing as mp
import os
import sys
import time

HERE = os.path.dirname(os.path.abspath(__file__))
sys.path.insert(0, HERE)
# development aid: IOOS_QC_REPO=<checkout> analyses another checkout (symbolic copy AND real package) instead of /repo
if os.environ.get("IOOS_QC_REPO"):
    sys.path.insert(0, os.environ["IOOS_QC_REPO"])
os.environ.setdefault("PYTHONHASHSEED", "0")
EVDIR = os.environ.get("VERIF_EVIDENCE_DIR") or os.path.join(HERE, "evidence")


def _run_one(args):
    prop, idx, tier, seed = args
    import warnings
    warnings.simplefilter("ignore")
    import logging
    logging.disable(logging.CRITICAL)
    from symex import harness
    mod = importlib.import_module(f"props.{prop.lower()}")
    job = mod.jobs(tier)[idx]
    if tier == "quick":
        # on the unchanged tree the slowest quick job takes ~20 s; a changed tree can blow a job up (e.g. np.isclose inside a
        # rolling window) - stop exploring after 5 min (violations found so far are kept, the rest is reported inconclusive)
        job.max_seconds = min(job.max_seconds, int(os.environ.get("VERIF_JOB_SECONDS", "300")))
    try:
        return harness.run_job(job, seed=seed, replay_dir=os.path.join(EVDIR, "replays"),
                               cross_check=(40 if tier == "thorough" else 0))
    except BaseException as e:  # never let a worker die silently
        import traceback
        return {"job": job.name, "prop": prop, "params": {}, "paths": 0, "decisions": 0, "queries": 0,
                "solver_time_s": 0.0, "obligations": 0, "discharged": 0, "witnesses_validated": 0,
                "witnesses_skipped": 0, "violations": [], "mismatches": [], "samples": [], "known_hits": [],
                "canary": None, "files": {}, "wall_s": 0.0,
                "inconclusive": [f"worker crashed: {e!r} {traceback.format_exc()[-800:]}"]}


def main(argv=None):
    ap = argparse.ArgumentParser()
    ap.add_argument("prop")
    ap.add_argument("--tier", default=os.environ.get("VERIF_TIER", "quick"))
    ap.add_argument("--jobs", type=int, default=int(os.environ.get("VERIF_JOBS", "0")) or min(16, os.cpu_count() or 4))
    ap.add_argument("--only", default=None)
    ap.add_argument("-v", action="store_true")
    a = ap.parse_args(argv)
    import logging
    import warnings
    logging.disable(logging.CRITICAL)
    warnings.simplefilter("ignore")
    prop = a.prop.upper()
    tier = a.tier if a.tier in ("quick", "thorough") else "quick"
    seed = int(os.environ.get("VERIF_SEED", "0") or 0)
    t0 = time.time()
    mod = importlib.import_module(f"props.{prop.lower()}")
    joblist = mod.jobs(tier)
    import glob
    for f in glob.glob(os.path.join(EVDIR, "replays", f"{prop}_*.json")):
        os.remove(f)
    idxs = [i for i, j in enumerate(joblist) if a.only is None or a.only in j.name]
    from symex import findings, evidence
    lemmas = mod.lemmas(tier) if hasattr(mod, "lemmas") else []
    work = [(prop, i, tier, seed) for i in idxs]
    if a.jobs <= 1 or len(work) <= 1:
        results = [_run_one(w) for w in work]
    else:
        ctx = mp.get_context("fork")
        with ctx.Pool(min(a.jobs, len(work))) as pool:
            results = pool.map(_run_one, work, chunksize=1)
    rc, lines = evidence.finish(prop, tier, seed, mod, joblist, results, lemmas, time.time() - t0, verbose=a.v)
    for ln in lines:
        print(ln)
    sys.stdout.flush()
    return rc


if __name__ == "__main__":
    sys.exit(main())
